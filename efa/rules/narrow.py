"""Narrow clauses: R-PERUP (C03), R-BOUND (C04), R-LOCAL (C11), R-PLACEHOLDER / R-SIB-JOB / R-SERV (C17),
R-SEL / R-IDFLOW (C19), R-THREAD (C20) (DESIGN §5.C, §5.F)."""
import ast

from . import rule
from ..frontend import AnalysisError, norm, is_property, is_static, is_classmethod
from ..report import Finding, RuleResult
from ..interp import Cx
from ..astutil import set_parents

JOB = "core/usage/job.py"
NW = "core/hardware/network.py"
SB = "core/hardware/server_base.py"
ST = "core/hardware/storage.py"
TB = "builders/time_builders.py"
MU = "abstract_modeling_classes/modeling_update.py"


def _calls(node):
    out = [n for n in ast.walk(node) if isinstance(n, ast.Call)]
    out.sort(key=lambda c: (c.lineno, c.col_offset))
    return out


# ---------------------------------------------------------------------------------------------- R-PERUP
def _perup_writer(fn, attr):
    """('ok'|'bad'|'unknown', why): self.<attr> rebuilt with exactly one entry per pattern of self.usage_patterns"""
    # (the dict may be filled through a local that names it: `d = self.<attr>` … `d[up] = …`)
    from ..astutil import expanded as _exp_pw
    inits = [n for n in ast.walk(fn) if isinstance(n, ast.Assign) and norm(n.targets[0]) == f"self.{attr}"]
    # (… or the other way round: the fresh dict bound to a local first, installed with `self.<attr> = d`, filled through d)
    installed = {n.value.id for n in inits if isinstance(n.value, ast.Name)}
    stores = [n for n in ast.walk(fn) if isinstance(n, ast.Assign) and isinstance(n.targets[0], ast.Subscript)
              and (norm(_exp_pw(n.targets[0].value, fn)) == f"self.{attr}"
                   or (isinstance(n.targets[0].value, ast.Name) and n.targets[0].value.id in installed))]
    if not inits:
        return "bad", f"self.{attr} is no longer rebuilt from scratch (stale entries of patterns that left survive)"
    # form 2: dict comprehension handed to ExplainableObjectDict
    for i in inits:
        dc = next((x for x in ast.walk(i.value) if isinstance(x, ast.DictComp)), None)
        if dc is not None and not stores:
            g = dc.generators[0]
            if norm(g.iter) != "self.usage_patterns":
                return "bad", f"entries are built for `{norm(g.iter)}`, not for every pattern of self.usage_patterns"
            if g.ifs:
                return "bad", "some usage patterns are filtered out"
            if norm(dc.key) != norm(g.target):
                return "bad", f"entries are keyed by `{norm(dc.key)}`, not by the pattern"
            return "ok", ""
    if len(stores) != 1:
        return ("bad", "no entry is written") if not stores else ("unknown", f"{len(stores)} subscript stores")
    st = stores[0]
    loop = getattr(st, "_parent", None)
    if not isinstance(loop, ast.For):
        return "bad", "the entry is written conditionally or outside a loop over the usage patterns"
    if norm(loop.iter) != "self.usage_patterns":
        return "bad", f"the loop runs over `{norm(loop.iter)}`, not over every pattern of self.usage_patterns"
    if not isinstance(loop.target, ast.Name) or norm(st.targets[0].slice) != loop.target.id:
        return "bad", f"the entry is filed under `{norm(st.targets[0].slice)}`, not under the loop's pattern"
    if any(isinstance(x, (ast.Continue, ast.Break)) for x in ast.walk(loop)):
        return "bad", "the loop skips some usage patterns"
    if inits[0].lineno > loop.lineno:
        return "bad", "the dict is reset after it was filled"
    outer = getattr(loop, "_parent", None)
    while outer is not None and outer is not fn:
        if isinstance(outer, (ast.For, ast.While)):
            return "bad", (f"the loop over the usage patterns runs inside another loop (`{norm(outer.iter if isinstance(outer, ast.For) else outer.test)[:50]}`): "
                           f"every pattern's entry is overwritten at each outer iteration and the last one — whose "
                           f"order depends on a set — wins")
        outer = getattr(outer, "_parent", None)
    v = loop.target.id
    for c in _calls(st.value):
        if isinstance(c.func, ast.Attribute) and norm(c.func.value) == "self" and c.func.attr.startswith("compute_") \
                and v not in [norm(a) for a in c.args] + [norm(k.value) for k in c.keywords]:
            return "bad", f"the entry of pattern `{v}` is computed for another pattern"
    for sub in ast.walk(loop):
        if isinstance(sub, ast.Subscript) and "per_usage_pattern" in norm(sub.value) and isinstance(sub.ctx, ast.Load) \
                and norm(sub.slice) != v:
            return "bad", f"the entry of pattern `{v}` reads another pattern's entry (`{norm(sub)}`)"
    return "ok", ""


def _shared_patterns(fn, rd, key, job):
    """the key of `job.…_per_usage_pattern[key]` ranges over patterns that are both the job's and the network's"""
    # binding loop / comprehension of `key`
    binder = rd
    it = None
    filters = []
    rec_field = None
    while binder is not None:
        binder = getattr(binder, "_parent", None)
        if isinstance(binder, ast.For) and norm(binder.target) == key:
            it = binder.iter
            break
        if isinstance(binder, ast.For) and isinstance(binder.target, ast.Name) and key.startswith(binder.target.id + ".") \
                and key.count(".") == 1:
            # the key is a field of a record the loop ranges over: `for r in recs: … [r.usage_pattern]` with
            # recs = [Rec(usage_pattern=up, …) for up in <patterns>] ranges over <patterns>
            from ..astutil import fully_expanded as _fxr
            lst = _fxr(binder.iter, fn)
            if isinstance(lst, ast.ListComp) and len(lst.generators) == 1 and isinstance(lst.elt, ast.Call) \
                    and isinstance(lst.generators[0].target, ast.Name):
                fld = key.split(".")[1]
                gv = lst.generators[0].target.id
                given = next((k.value for k in lst.elt.keywords if k.arg == fld), None)
                if given is None and lst.elt.args and isinstance(lst.elt.args[0], ast.Name) and lst.elt.args[0].id == gv:
                    given = lst.elt.args[0]      # first positional field (records list the key first)
                if isinstance(given, ast.Name) and given.id == gv:
                    it, filters, rec_field = lst.generators[0].iter, list(lst.generators[0].ifs), gv
                    break
        if isinstance(binder, (ast.ListComp, ast.GeneratorExp, ast.DictComp)):
            g = next((g for g in binder.generators if norm(g.target) == key), None)
            if g is not None:
                it, filters = g.iter, filters + list(g.ifs)
                break
            # the filters of an enclosing comprehension that binds something else (`… for job in jobs if up in
            # job.usage_patterns`) guard the read as well
            for g2 in binder.generators:
                filters += list(g2.ifs)
    if it is None:
        return "unknown"
    # resolve a local list to its defining comprehension
    from ..astutil import expanded as _exp
    it = _exp(it, fn)
    if isinstance(it, ast.Name):
        d = [n for n in ast.walk(fn) if isinstance(n, ast.Assign) and norm(n.targets[0]) == it.id]
        from ..astutil import list_builder
        built = list_builder(fn, it.id)
        if built is not None:
            g = built.generators[0]
            it, filters = g.iter, filters + list(g.ifs)
            key2 = norm(g.target)
        elif len(d) == 1 and isinstance(d[0].value, (ast.ListComp, ast.GeneratorExp)):
            g = d[0].value.generators[0]
            it, filters = g.iter, filters + list(g.ifs)
            key2 = norm(g.target)
        else:
            return "unknown"
    else:
        key2 = key
    if rec_field is not None:
        key2 = rec_field
    from ..astutil import enorm, path_conditions, positive_atoms
    src = enorm(it, fn)
    tests = [enorm(f, fn) for f in filters]
    # guards on the path to the read: `if up in self.usage_patterns:` / `if up not in …: continue`
    stmt = rd
    while stmt is not None and not isinstance(stmt, ast.stmt):
        stmt = getattr(stmt, "_parent", None)
    if stmt is not None:
        true, false = positive_atoms(path_conditions(stmt, fn))
        tests += [enorm(t, fn) for t in true]
        for t in false:
            if isinstance(t, ast.Compare) and len(t.ops) == 1 and isinstance(t.ops[0], ast.NotIn):
                tests.append(f"{enorm(t.left, fn)} in {enorm(t.comparators[0], fn)}")
    job_side = src == f"{job}.usage_patterns" or any(t == f"{key2} in {job}.usage_patterns" for t in tests) \
        or (key != key2 and any(t == f"{key} in {job}.usage_patterns" for t in tests))
    net_side = src == "self.usage_patterns" or any(t == f"{key2} in self.usage_patterns" for t in tests) \
        or (key != key2 and any(t == f"{key} in self.usage_patterns" for t in tests))
    if job_side and net_side:
        return "ok"
    if src in (f"{job}.usage_patterns", "self.usage_patterns"):
        return "bad"
    return "unknown"


@rule("R-PERUP")
def r_perup(E):
    pm = E.pm
    res = RuleResult("R-PERUP", "each per-usage-pattern dict of a job is written by a loop over self.usage_patterns keyed "
                                "by the loop variable, and each across-patterns sum reads the matching dict over the same "
                                "collection; the network reads a job's entry only for patterns they share")
    rel, cls = pm.find_function(JOB, "JobBase")
    ms = {f.name: f for f in cls.body if isinstance(f, ast.FunctionDef)}
    # each rule is read with the same-class helpers it calls spliced in (two rounds: a helper calling a helper), their
    # parameters replaced by the constants / methods the rule passes — "fill the dict attribute called <name>" reads as
    # the rule's own statements
    from ..astutil import inline_helpers as _inl
    _finder = pm.helper_finder("JobBase")
    ms = {k: (_inl(_inl(f, _finder, max_body=20), _finder, max_body=20) if k.startswith("update_") else f)
          for k, f in ms.items()}
    writers = [m for m in ms if m.startswith("update_") and m.endswith("_per_usage_pattern")]
    for m in sorted(writers):
        fn = ms[m]
        attr = m[len("update_"):]
        res.instances += 1
        verdict, why = _perup_writer(fn, attr)
        if verdict == "bad":
            res.findings.append(Finding(
                "R-PERUP", f"JobBase.{m} writer shape",
                f"JobBase.{m}: {why}: occurrences are lost, duplicated or filed under another pattern", rel, fn.lineno,
                f"JobBase.{m}"))
        elif verdict == "unknown":
            res.undecided.append(f"JobBase.{m}: writer shape not recognised ({why})")
        elif len(res.samples) < 3:
            res.samples.append({"writer": f"JobBase.{m}", "collection": "self.usage_patterns", "keyed_by": "loop variable"})
    # readers
    helper = ms.get("sum_calculated_attribute_across_usage_patterns")
    res.instances += 1
    hok = False
    if helper is not None:
        from ..astutil import enorm, fully_expanded
        p = helper.args.args[1].arg
        loop = next((s for s in helper.body if isinstance(s, ast.For)), None)
        if loop is not None and enorm(loop.iter, helper) == "self.usage_patterns" and isinstance(loop.target, ast.Name):
            v = loop.target.id
            hok = any(isinstance(s, ast.AugAssign) and isinstance(s.op, ast.Add)
                      and norm(fully_expanded(s.value, helper)) == f"getattr(self, {p})[{v}]" for s in loop.body)
        # the same sum written as sum(<dict>[up] for up in self.usage_patterns, start=Empty)
        for c in ast.walk(helper):
            if isinstance(c, ast.Call) and isinstance(c.func, ast.Name) and c.func.id == "sum" and c.args \
                    and isinstance(c.args[0], (ast.GeneratorExp, ast.ListComp)) and len(c.args[0].generators) == 1:
                g = c.args[0].generators[0]
                if enorm(g.iter, helper) == "self.usage_patterns" and not g.ifs and isinstance(g.target, ast.Name) \
                        and norm(fully_expanded(c.args[0].elt, helper)) == f"getattr(self, {p})[{g.target.id}]":
                    hok = True
    if not hok:
        res.findings.append(Finding("R-PERUP", "JobBase.sum_calculated_attribute_across_usage_patterns shape",
                                    "the across-patterns sum no longer adds the entry of every pattern of "
                                    "self.usage_patterns exactly once", rel, helper.lineno if helper else cls.lineno,
                                    "JobBase.sum_calculated_attribute_across_usage_patterns"))
    for m in sorted(ms):
        if m.startswith("update_") and m.endswith("_across_usage_patterns"):
            res.instances += 1
            stem = m[len("update_"):-len("_across_usage_patterns")]
            want = f"{stem}_per_usage_pattern"
            c = next((c for c in _calls(ms[m]) if norm(c.func) == "self.sum_calculated_attribute_across_usage_patterns"), None)
            tgt = next((s for s in ast.walk(ms[m]) if isinstance(s, ast.Assign) and c is not None
                        and any(x is c for x in ast.walk(s.value))), None)
            if c is None or not c.args or not isinstance(c.args[0], ast.Constant) or c.args[0].value != want \
                    or tgt is None or norm(tgt.targets[0]) != f"self.{stem}_across_usage_patterns":
                res.findings.append(Finding(
                    "R-PERUP", f"JobBase.{m} reads {c.args[0].value if c is not None and c.args and isinstance(c.args[0], ast.Constant) else '?'}",
                    f"JobBase.{m} must sum self.{want}; it sums another per-pattern dict (or writes another attribute)",
                    rel, ms[m].lineno, f"JobBase.{m}"))
            elif want not in [w[len("update_"):] for w in writers]:
                res.findings.append(Finding("R-PERUP", f"JobBase.{m} no writer", f"no rule writes self.{want}", rel,
                                            ms[m].lineno, f"JobBase.{m}"))
    # network: a job's entry is read only for patterns the job and the network share
    rel2, nf0 = pm.find_function(NW, "Network.update_energy_footprint")
    res.instances += 1
    # the rule and the same-class methods it calls, each read as the function it is
    # (a helper is read where it is called, its parameters replaced by the arguments: a pattern handed over as argument is
    # the caller's loop variable, and the caller's loop is found by walking up through the call)
    from ..astutil import helper_view as _hview
    fns_nw = [nf0]
    for c in _calls(nf0):
        if isinstance(c.func, ast.Attribute) and norm(c.func.value) == "self":
            h = pm.find_method("Network", c.func.attr)[1]
            if h is not None and not is_property(h):
                try:
                    fns_nw.append(_hview(h, c))
                except Exception:
                    fns_nw.append(h)
    # (pairs grouped by pattern — groupby over a generator produced pattern by pattern — read as the loop over the
    # patterns; a comprehension over a generator of pairs read as one comprehension)
    from ..astutil import degroup_loops as _dgl, fuse_generators as _fuse_nw
    fns_nw = [_fuse_nw(_dgl(f_), pm.helper_finder("Network")) for f_ in fns_nw]
    reads, nf = [], fns_nw[0]
    for f_ in fns_nw:
        rs = [n for n in ast.walk(f_) if isinstance(n, ast.Subscript) and isinstance(n.value, ast.Attribute)
              and n.value.attr == "hourly_data_transferred_per_usage_pattern" and isinstance(n.ctx, ast.Load)]
        if rs:
            reads, nf = rs, f_
            break
    if not reads:
        res.findings.append(Finding("R-PERUP", "Network.update_energy_footprint shared patterns",
                                    "the network no longer reads the jobs' per-pattern data transferred", rel2, nf.lineno,
                                    "Network.update_energy_footprint"))
    for rd in reads:
        key = norm(rd.slice)
        job = norm(rd.value.value)
        verdict = _shared_patterns(nf, rd, key, job)
        if verdict == "bad":
            res.findings.append(Finding(
                "R-PERUP", "Network.update_energy_footprint shared patterns",
                "the network must read a job's per-pattern data only for the usage patterns that use both the job and "
                "this network (a job can serve patterns on other networks): otherwise KeyError or traffic counted on the "
                "wrong network", rel2, rd.lineno, "Network.update_energy_footprint"))
        elif verdict == "unknown":
            res.undecided.append(f"Network.update_energy_footprint: cannot tell which patterns `{key}` ranges over")
    res.floor = 10
    return res


# ---------------------------------------------------------------------------------------------- R-BOUND
GE = "GE_RAW"        # series >= raw need at every hour
GA = "GE_ALL"        # scalar >= every hour of the raw need
PRESERVE = {"copy", "to", "set_label", "generate_explainable_object_with_logical_dependency", "abs"}


class Bound:
    def __init__(self, fn, find_method=None, find_function=None):
        from ..astutil import aliases
        self.fn = fn
        self.find_method = find_method or (lambda name: None)
        self.find_function = find_function
        self.alias = aliases(fn)
        self.defs = {}
        for n in ast.walk(fn):
            if isinstance(n, ast.Assign) and len(n.targets) == 1 and isinstance(n.targets[0], ast.Name):
                self.defs.setdefault(n.targets[0].id, []).append(n)
        self.problems = []

    def guard_for(self, node):
        """do the conditions under which `node` executes establish <scalar >= every hour of the raw need> <= the fixed
        count? (`if peak > fixed: raise` before it or around it, in any spelling: negated, mirrored, early exit)"""
        from ..astutil import path_conditions, positive_atoms
        stmt = node
        while stmt is not None and not isinstance(stmt, ast.stmt):
            stmt = getattr(stmt, "_parent", None)
        if stmt is None:
            return False
        true, false = positive_atoms(path_conditions(stmt, self.fn))
        for atoms, pol in ((true, True), (false, False)):
            for t in atoms:
                if not (isinstance(t, ast.Compare) and len(t.ops) == 1):
                    continue
                l, r, op = t.left, t.comparators[0], t.ops[0]
                if isinstance(op, (ast.Gt, ast.GtE)):
                    small, big = (r, l) if pol else (l, r)
                elif isinstance(op, (ast.Lt, ast.LtE)):
                    small, big = (l, r) if pol else (r, l)
                else:
                    continue
                # established: small <= big
                if self.x(big) == "self.fixed_nb_of_instances" and self.ev(small, stmt) == GA:
                    return True
        if getattr(self, "outer", None) is not None:
            ob, call, _oat = self.outer
            return ob.guard_for(call)
        return False

    def _expand_local(self, e, at):
        """e with the locals of this function replaced by their (single) definitions"""
        from ..astutil import fully_expanded
        try:
            return fully_expanded(e, self.fn)
        except Exception:
            return e

    def x(self, e):
        """normalised text with local aliases expanded"""
        from ..astutil import substitute
        return norm(substitute(e, self.alias))

    def ev(self, e, at, depth=0):
        if depth > 45:
            return "?"
        EV = lambda x: self.ev(x, at, depth + 1)
        if isinstance(e, ast.Name) and e.id in self.alias:
            return self.ev(self.alias[e.id], at, depth + 1)
        if isinstance(e, ast.Call):
            from ..astutil import inline_call_expr
            inl = inline_call_expr(e, self.find_method, self.find_function)
            if inl is not None:
                from ..astutil import set_parents
                set_parents(inl)._parent = getattr(e, "_parent", None)     # the inlined body sits where the call is
                return self.ev(inl, at, depth + 1)
            # a same-class method with several statements / several returns (`self.on_premise_series()`, `self.constant_df(n)`):
            # every value it can return is bounded in its own body, read in the caller's terms; what its body does not
            # define (an argument that is a local of the caller, a guard the caller established) is asked of the caller
            if isinstance(e.func, ast.Attribute) and isinstance(e.func.value, ast.Name) and e.func.value.id == "self" \
                    and e.func.attr not in PRESERVE:
                h = self.find_method(e.func.attr)
                if h is not None and not is_property(h) and depth < 30:
                    from ..astutil import _bind_call, clone, substitute_stmt, fold_static
                    hb = clone(h)
                    hb.body = [substitute_stmt(b, _bind_call(h, e)) for b in hb.body]
                    fold_static(hb)
                    for n_ in ast.walk(hb):
                        for ch in ast.iter_child_nodes(n_):
                            ch._parent = n_
                    hb._parent = None
                    sub = Bound(hb, self.find_method, self.find_function)
                    sub.outer = (self, e, at)
                    sub.problems = self.problems
                    vals = [sub.ev(r.value, r, depth + 1) for r in ast.walk(hb)
                            if isinstance(r, ast.Return) and r.value is not None]
                    if vals:
                        if all(v in (GE, "EMPTY") for v in vals) and GE in vals:
                            return GE
                        if all(v == "EMPTY" for v in vals):
                            return "EMPTY"
                        for bad in ("BAD", "UNGUARDED"):
                            if bad in vals:
                                return bad
                        if all(v == GA for v in vals):
                            return GA
                        return "?"
        if isinstance(e, ast.Attribute) and self.x(e) == "self.raw_nb_of_instances":
            return GE
        if isinstance(e, ast.Attribute) and e.attr in ("value", "magnitude", "values"):
            return EV(e.value)
        if isinstance(e, ast.Name):
            ds = [d for d in self.defs.get(e.id, []) if d.lineno < getattr(at, "lineno", 10 ** 9)
                  and self._same_branch(d, at)]
            if not ds:
                if getattr(self, "outer", None) is not None and e.id not in {a.arg for a in self.fn.args.args}:
                    ob, _call, oat = self.outer
                    return ob.ev(e, oat, depth + 1)
                return "?"
            d = max(ds, key=lambda x: x.lineno)        # reaching definition on this branch
            return self.ev(d.value, d, depth + 1)
        if isinstance(e, ast.Call):
            f = e.func
            if isinstance(f, ast.Attribute):
                if f.attr in PRESERVE:
                    return EV(f.value)
                if f.attr == "ceil":
                    return EV(f.value)                    # ceil(x) >= x
                if f.attr == "max":
                    return GA if EV(f.value) == GE else "?"
                if f.attr in ("mean", "min", "sum"):
                    r = EV(f.value)
                    if r == GE:
                        self.problems.append(f".{f.attr}() of the raw need is not >= every hour of it")
                    return "BAD"
                if norm(f) in ("np.full",) and len(e.args) >= 2:
                    fill = e.args[1]
                    if "self.fixed_nb_of_instances" in self.x(fill) or "self.fixed_nb_of_instances" in norm(self._expand_local(fill, at)):
                        return GE if self.guard_for(e) else "UNGUARDED"
                    if self.x(e.args[0]).startswith("len(self.raw_nb_of_instances") and EV(fill) == GA:
                        return GE          # a constant >= the peak at every hour
                    return "?"
                if norm(f) in ("pd.DataFrame", "pint_pandas.PintArray"):
                    a = e.args[0] if e.args else None
                    if isinstance(a, ast.Dict) and a.values:
                        return EV(a.values[0])
                    return EV(a) if a is not None else "?"
            if isinstance(f, ast.Name) and f.id in ("ExplainableHourlyQuantities",) and e.args:
                return EV(e.args[0])
            if isinstance(f, ast.Name) and f.id == "EmptyExplainableObject":
                return "EMPTY"
            return "?"
        if isinstance(e, ast.BinOp) and isinstance(e.op, ast.Mult):
            # <scalar >= every hour> * np.ones(len(raw))
            l, r = e.left, e.right
            for a, b in ((l, r), (r, l)):
                if self.x(b).startswith("np.ones(len(self.raw_nb_of_instances))") and EV(a) == GA:
                    return GE
            return "?"
        return "?"

    def _same_branch(self, d, at):
        """definition d is on the path to `at`: not in a sibling branch of an enclosing if"""
        x = d
        while x is not None and x is not self.fn:
            par = getattr(x, "_parent", None)
            if isinstance(par, ast.If):
                in_body = any(x is s or self._contains(s, x) for s in par.body)
                at_in_if = self._contains(par, at)
                if at_in_if:
                    at_in_body = any(self._contains(s, at) or s is at for s in par.body)
                    if in_body != at_in_body:
                        return False
            x = par
        return True

    @staticmethod
    def _contains(root, node):
        return any(n is node for n in ast.walk(root))


def _table_handlers(pm, cname, fn, src):
    """handler functions of a class-level dispatch table from which the expression `src` takes its value: src (through
    label-preserving calls and one local) is `<h>(self)` with <h> a target of `for …, <h> in self.<TABLE>`"""
    e = src
    for _ in range(6):
        while isinstance(e, ast.Call) and isinstance(e.func, ast.Attribute) and e.func.attr in PRESERVE:
            e = e.func.value
        if isinstance(e, ast.Name):
            ds = [n.value for n in ast.walk(fn) if isinstance(n, ast.Assign) and any(
                isinstance(t, ast.Name) and t.id == e.id for t in n.targets)]
            if len(ds) != 1:
                break
            e = ds[0]
            continue
        break
    if not (isinstance(e, ast.Call) and isinstance(e.func, ast.Name) and [norm(a) for a in e.args] == ["self"]):
        return []
    loop = next((l for l in ast.walk(fn) if isinstance(l, ast.For) and any(
        isinstance(x, ast.Name) and x.id == e.func.id for x in ast.walk(l.target))), None)
    if loop is None or not (isinstance(loop.iter, ast.Attribute) and norm(loop.iter.value) == "self"):
        return []
    kc, table = pm._class_const(cname, loop.iter.attr)
    if not isinstance(table, (ast.Tuple, ast.List)) or not isinstance(loop.target, ast.Tuple):
        return []
    pos = next((i for i, x in enumerate(loop.target.elts) if isinstance(x, ast.Name) and x.id == e.func.id), None)
    out = []
    for row in table.elts:
        if not (isinstance(row, (ast.Tuple, ast.List)) and pos is not None and pos < len(row.elts)
                and isinstance(row.elts[pos], ast.Name)):
            return []
        h = pm.find_method(cname, row.elts[pos].id)[1]
        if h is None:
            return []
        out.append(h)
    return out


@rule("R-BOUND")
def r_bound(E):
    pm = E.pm
    res = RuleResult("R-BOUND", "order-domain bounds: the number of instances written by every sizing branch is >= the raw "
                                "need at every hour (ceil, copy, constant >= peak, or a user-fixed count guarded by a "
                                "raising comparison), and active storage instances are capped by the provisioned ones")
    # the sizing branches of a server are the methods its rule dispatches to (`{type: self.<branch>, …}[self.server_type]()`)
    # — or the rule itself when it does not dispatch; a branch either writes the attribute or returns what the rule writes
    rel_d, disp = pm.find_function(SB, "ServerBase.update_nb_of_instances")
    branches = []
    for n in ast.walk(disp):
        if isinstance(n, ast.Attribute) and isinstance(n.value, ast.Name) and n.value.id == "self" \
                and isinstance(n.ctx, ast.Load) and n.attr not in branches:
            m = pm.find_method("ServerBase", n.attr)[1]
            par = getattr(n, "_parent", None)
            # called for its value (a call made for its effect only — a check that raises — is not a sizing branch)
            called = isinstance(par, ast.Call) and par.func is n and (
                not isinstance(getattr(par, "_parent", None), ast.Expr)
                or (m is not None and any(isinstance(w, ast.Assign) and norm(w.targets[0]) == "self.nb_of_instances"
                                          for w in ast.walk(m))))
            if m is not None and not is_property(m) and (isinstance(par, ast.Dict) or called) \
                    and n.attr not in ("update_nb_of_instances",):
                branches.append(n.attr)
    if not branches:
        # dispatch by name: getattr(self, <entry of a class-level table of method names>)() — the branches are the
        # methods of the class whose names have the shape of the table's entries
        import re as _re_b
        from ..interp import V as _V_b
        for n in ast.walk(disp):
            if isinstance(n, ast.Call) and isinstance(n.func, ast.Name) and n.func.id == "getattr" and len(n.args) == 2 \
                    and norm(n.args[0]) == "self":
                pat = E.I._name_pattern(n.args[1], _V_b("obj", {"ServerBase"}, True), {})
                if pat:
                    for f_ in pm.own_methods("ServerBase"):
                        if _re_b.fullmatch(pat, f_.name) and not is_property(f_) and f_.name != "update_nb_of_instances" \
                                and f_.name not in branches:
                            branches.append(f_.name)
    if not branches:
        branches = ["update_nb_of_instances"]
    if len(branches) < 3 and branches != ["update_nb_of_instances"]:
        res.undecided.append(f"ServerBase.update_nb_of_instances dispatches to {branches}: three sizing branches expected")
    targets = [(SB, f"ServerBase.{b}") for b in branches] + [(ST, "Storage.update_nb_of_instances")]
    for suffix, q in targets:
        cname = q.split(".")[0]
        if cname == "ServerBase":
            owner, fn = pm.find_method("ServerBase", q.split(".", 1)[1])
            rel = pm.path_of(owner)
        else:
            rel, fn = pm.find_function(suffix, q)
        B = Bound(fn, lambda name, _c=cname: pm.find_method(_c, name)[1],
                  lambda name: pm.functions[name][1] if name in pm.functions else None)
        writes = [n for n in ast.walk(fn) if isinstance(n, ast.Assign) and norm(n.targets[0]) == "self.nb_of_instances"]
        if not writes and cname == "ServerBase" and q != "ServerBase.update_nb_of_instances":
            # the branch returns the series and the dispatching rule writes it (through label-preserving calls only)
            wd = [n for n in ast.walk(disp) if isinstance(n, ast.Assign) and norm(n.targets[0]) == "self.nb_of_instances"]
            ok_disp = bool(wd)
            for w in wd:
                base = w.value
                while isinstance(base, ast.Call) and isinstance(base.func, ast.Attribute) and base.func.attr in PRESERVE:
                    base = base.func.value
                if not isinstance(base, (ast.Name, ast.Call)):
                    ok_disp = False
            if not ok_disp:
                res.undecided.append(f"{q}: neither the branch nor the dispatching rule writes self.nb_of_instances")
            writes = [ast.copy_location(ast.Assign(targets=[ast.Name(id="<returned>", ctx=ast.Store())], value=r.value), r)
                      for r in ast.walk(fn) if isinstance(r, ast.Return) and r.value is not None]
            for w, r in zip(writes, [r for r in ast.walk(fn) if isinstance(r, ast.Return) and r.value is not None]):
                w._parent = getattr(r, "_parent", None)
                w.lineno = r.lineno
        if not writes:
            res.undecided.append(f"{q}: no write of self.nb_of_instances")
        for w in writes:
            # enumerate the definitions that can reach this write (one instance per reaching branch)
            srcs = [w.value]
            if isinstance(w.value, ast.Call):
                base = w.value
                while isinstance(base, ast.Call) and isinstance(base.func, ast.Attribute) and base.func.attr in PRESERVE:
                    base = base.func.value
                if isinstance(base, ast.Name):
                    ds = [d for d in B.defs.get(base.id, []) if d.lineno < w.lineno and B._same_branch(d, w)]
                    if len(ds) > 1:
                        srcs = [d.value for d in ds]
                        ats = ds
                    else:
                        ats = [w]
                else:
                    ats = [w]
            else:
                ats = [w]
            for src, at in zip(srcs, ats):
                res.instances += 1
                B.problems = []
                v = B.ev(src, at)
                if v == "?":
                    # the value comes out of a class-level table of (predicate, handler) rows tried in turn
                    # (`for applies, compute in self.RULES: if applies(self): x = compute(self); break`): every handler
                    # is a sizing branch of its own
                    hs = _table_handlers(pm, cname, fn, src)
                    if hs:
                        vals = []
                        for h in hs:
                            HB = Bound(h, lambda name, _c=cname: pm.find_method(_c, name)[1],
                                       lambda name: pm.functions[name][1] if name in pm.functions else None)
                            for r in [x for x in ast.walk(h) if isinstance(x, ast.Return) and x.value is not None]:
                                HB.problems = []
                                hv = HB.ev(r.value, r)
                                vals.append(hv)
                                B.problems += HB.problems
                        if vals and all(x in (GE, "EMPTY") for x in vals):
                            v = GE
                        elif any(x in ("BAD", "UNGUARDED", GA) for x in vals):
                            v = next(x for x in vals if x in ("BAD", "UNGUARDED", GA))
                key = f"{q} :: {norm(src)[:90]}"
                if v in (GE, "EMPTY"):
                    if len(res.samples) < 6:
                        res.samples.append({"branch": q, "value": norm(src)[:70], "bound": ">= raw need" if v == GE else "empty when the need is empty"})
                elif v == "BAD":
                    res.findings.append(Finding("R-BOUND", key, f"{q}: {'; '.join(B.problems)}: the server is "
                                                f"under-provisioned at peak hours", rel, at.lineno, q))
                elif v == "UNGUARDED":
                    res.findings.append(Finding(
                        "R-BOUND", key, f"{q} uses the user-fixed instance count without a dominating "
                        f"`if <ceil of the peak need> > self.fixed_nb_of_instances: raise`: a fixed count below the need "
                        f"silently under-provisions", rel, at.lineno, q))
                elif v == GA:
                    res.findings.append(Finding("R-BOUND", key, f"{q} writes a scalar where an hourly series is expected",
                                                rel, at.lineno, q))
                else:
                    res.undecided.append(f"{q}: cannot bound {norm(src)[:80]}")
    # active <= provisioned
    rel, fn = pm.find_function(ST, "Storage.update_nb_of_active_instances")
    res.instances += 1
    w = next((n for n in ast.walk(fn) if isinstance(n, ast.Assign) and norm(n.targets[0]) == "self.nb_of_active_instances"), None)
    ok = False
    if w is not None:
        B = Bound(fn)
        e = w.value
        while isinstance(e, ast.Call) and isinstance(e.func, ast.Attribute) and e.func.attr in PRESERVE:
            e = e.func.value
        if isinstance(e, ast.Name):
            ds = B.defs.get(e.id, [])
            e = ds[-1].value if ds else e
        if isinstance(e, ast.Call) and isinstance(e.func, ast.Attribute) and e.func.attr == "np_compared_with" \
                and len(e.args) == 2 and norm(e.args[0]) in ("self.nb_of_instances.abs()", "self.nb_of_instances") \
                and isinstance(e.args[1], ast.Constant) and e.args[1].value == "min":
            ok = True
    if not ok:
        res.findings.append(Finding(
            "R-BOUND", "Storage.update_nb_of_active_instances cap",
            "the number of active storage instances is no longer capped by np_compared_with(self.nb_of_instances, 'min'): "
            "more instances can be active than are provisioned (idle count negative)", rel, fn.lineno, fn.name))
    res.floor = 7
    return res


# ---------------------------------------------------------------------------------------------- R-LOCAL
REGRID_OPS = {"asfreq", "reindex", "resample", "shift", "tz_localize", "tz_convert", "head", "tail", "truncate", "dropna",
              "drop", "drop_duplicates", "reindex_like", "between_time", "at_time", "first", "last", "date_range"}


@rule("R-UTCMERGE")
def r_utcmerge(E):
    pm = E.pm
    res = RuleResult("R-UTCMERGE", "every way out of ExplainableHourlyQuantities.convert_to_utc that returns a series has "
                                   "gone through the search for repeated UTC timestamps (index.duplicated / a groupby on "
                                   "the index that sums them): a spring-forward hour shifted onto its neighbour leaves two "
                                   "rows with the same timestamp, and whatever zone the caller believes it is in, they are "
                                   "merged before the series leaves the converter")
    from ..paths import enumerate_paths
    from ..astutil import nodes_through_helpers as _nth
    rel, fn = pm.find_function("abstract_modeling_classes/explainable_objects.py", "ExplainableHourlyQuantities.convert_to_utc")
    finder = pm.helper_finder("ExplainableHourlyQuantities")

    def merges(n):
        if isinstance(n, ast.Call) and isinstance(n.func, ast.Attribute) and n.func.attr == "duplicated":
            return True
        return isinstance(n, ast.Call) and isinstance(n.func, ast.Attribute) and n.func.attr == "groupby" and any(
            isinstance(x, ast.Attribute) and x.attr == "index" for a in n.args + [k.value for k in n.keywords]
            for x in ast.walk(a)) or (isinstance(n, ast.Call) and isinstance(n.func, ast.Attribute)
                                      and n.func.attr == "groupby" and any(k.arg == "level" for k in n.keywords))

    def stmt_merges(st):
        return any(merges(n) for n in _nth(st, finder, depth=2)) if not isinstance(st, ast.FunctionDef) else False

    if not any(merges(n) for n in _nth(fn, finder, depth=2)):
        res.undecided.append("convert_to_utc: the search for repeated timestamps (index.duplicated / groupby on the index) "
                             "was not found: the rule does not recognise this way of merging")
        return res
    paths = enumerate_paths(fn)
    for p in paths:
        if p.end != "return" or not p.stmts or not isinstance(p.stmts[-1], ast.Return) or p.stmts[-1].value is None:
            continue
        res.instances += 1
        if not any(stmt_merges(st) for st in p.stmts) and not any(
                merges(n) for c, _ in p.conds for n in ast.walk(c)):
            ret = p.stmts[-1]
            res.findings.append(Finding(
                "R-UTCMERGE", f"convert_to_utc return :: {norm(ret)[:80]}",
                f"convert_to_utc returns `{norm(ret.value)[:60]}` on a path ({' and '.join(('' if pol else 'not ') + norm(c)[:40] for c, pol in p.conds) or 'unconditional'}) "
                f"that never looks for repeated UTC timestamps: the two rows a daylight-saving change puts on the same "
                f"hour are both kept (duplicate timestamps, index not strictly increasing)", rel, ret.lineno,
                "ExplainableHourlyQuantities.convert_to_utc"))
    res.floor = 1
    return res


@rule("R-LOCAL")
def r_local(E):
    pm = E.pm
    res = RuleResult("R-LOCAL", "the local-time series UsagePattern.hourly_usage_journey_starts is read by exactly one "
                                "rule — the UTC converter, with the pattern's country time zone — and by the simulation "
                                "filter, which localises it explicitly; every other rule reads the UTC attribute")
    for (c, x), cx in E.contexts().items():
        if cx is None:
            continue
        for (d, y, s) in cx.reads:
            if y == "hourly_usage_journey_starts":
                res.instances += 1
                owner, fn = pm.find_method(c, "update_" + x)
                if (c, x) != ("UsagePattern", "utc_hourly_usage_journey_starts"):
                    res.findings.append(Finding(
                        "R-LOCAL", f"{c}.update_{x} reads local time",
                        f"{c}.update_{x} reads the local-time series hourly_usage_journey_starts directly: usage patterns "
                        f"in different time zones are combined without conversion to UTC", pm.path_of(owner), fn.lineno,
                        f"{owner}.update_{x}"))
    rel, fn = pm.find_function("core/usage/usage_pattern.py", "UsagePattern.update_utc_hourly_usage_journey_starts")
    res.instances += 1
    conv = [c for c in _calls(fn) if isinstance(c.func, ast.Attribute) and c.func.attr == "convert_to_utc"]
    if not conv:
        res.findings.append(Finding("R-LOCAL", "UsagePattern.update_utc_hourly_usage_journey_starts conversion",
                                    "the UTC series is no longer produced by convert_to_utc", rel, fn.lineno, fn.name))
    else:
        c = conv[0]
        arg = (c.args[0] if c.args else (c.keywords[0].value if c.keywords else None))
        if norm(c.func.value) != "self.hourly_usage_journey_starts" or arg is None or norm(arg) != "self.country.timezone":
            res.findings.append(Finding(
                "R-LOCAL", "UsagePattern.update_utc_hourly_usage_journey_starts conversion",
                f"the UTC series is `{norm(c)[:80]}` instead of this pattern's local series converted with this pattern's "
                f"country time zone", rel, c.lineno, fn.name))
    # what the rule stores is the converter's result: a method applied to it on the way to the attribute must not put the
    # values on other timestamps (re-gridding drops whatever is off the new grid: zones whose offset changes by a
    # fraction of an hour), drop rows or convert a second time
    if conv:
        from ..astutil import nodes_through_helpers as _nth
        applied, frontier, seen_names = [], [conv[0]], set()
        while frontier:
            e = frontier.pop()
            par = getattr(e, "_parent", None)
            while isinstance(par, ast.Attribute) and isinstance(getattr(par, "_parent", None), ast.Call) \
                    and par._parent.func is par:
                applied.append((par.attr, par._parent))
                e = par._parent
                par = getattr(e, "_parent", None)
            if isinstance(par, ast.Assign) and par.value is e and isinstance(par.targets[0], ast.Name) \
                    and par.targets[0].id not in seen_names:
                seen_names.add(par.targets[0].id)
                frontier += [x for x in ast.walk(fn) if isinstance(x, ast.Name) and isinstance(x.ctx, ast.Load)
                             and x.id == par.targets[0].id and x.lineno >= par.lineno]
        finder = pm.helper_finder("ExplainableHourlyQuantities")
        for m, call in applied:
            res.instances += 1
            h = finder(m)
            if h is None:
                continue
            bad = next((n for n in _nth(h, finder) if
                        (isinstance(n, ast.Call) and isinstance(n.func, ast.Attribute) and n.func.attr in REGRID_OPS)
                        or (isinstance(n, ast.Attribute) and n.attr in ("iloc", "loc") and
                            isinstance(getattr(n, "_parent", None), ast.Subscript))), None)
            if bad is not None:
                res.findings.append(Finding(
                    "R-LOCAL", f"UsagePattern.update_utc_hourly_usage_journey_starts applies .{m}() to the converted series",
                    f"the rule applies ExplainableHourlyQuantities.{m} to the result of convert_to_utc, and that method "
                    f"re-indexes / cuts the frame (`{norm(bad)[:60]}`): values whose UTC timestamp is not on the new grid (a "
                    f"zone whose offset changes by a fraction of an hour inside the series) or in the kept part are "
                    f"dropped, so the total is not preserved", rel, call.lineno, fn.name))
    for q in ("ModelingUpdate.compute_hourly_quantities_to_filter", "ModelingUpdate.filter_hourly_quantities_to_filter"):
        rel, fn = pm.find_function(MU, q)
        res.instances += 1
        from ..astutil import nodes_through_helpers as _nthm
        # (the per-value step may be a helper, map()ped; the zone and the period may be read by module-level helpers or by
        # the constructors of a small record class)
        _mu_nodes = list(_nthm(fn, pm.helper_finder("ModelingUpdate"), depth=3, find_function=pm.any_helper_finder(rel)))
        # … or by a property of the series itself (`ancestor.aware_time_span`, which reads `self.local_timezone`): a property
        # that only one class of the package has is read where it is used, two levels deep
        _up = pm.unique_property_finder()
        _seen_p, _front = set(), list(_mu_nodes)
        for _lvl in range(2):
            _new = []
            for n_ in _front:
                if isinstance(n_, ast.Attribute) and n_.attr not in _seen_p and not (
                        isinstance(n_.value, ast.Name) and n_.value.id == "self" and _lvl == 0):
                    hp_ = _up(n_.attr)
                    if hp_ is not None:
                        _seen_p.add(n_.attr)
                        _new += list(ast.walk(hp_))
            _mu_nodes += _new
            _front = _new
        naive_test = any(isinstance(n, ast.Compare) and isinstance(n.ops[0], (ast.Is, ast.IsNot)) and isinstance(n.left, ast.Attribute)
                         and n.left.attr in ("tz", "tzinfo") for n in _mu_nodes)
        uses_zone = any(isinstance(n, ast.Attribute) and n.attr == "timezone" and isinstance(n.value, ast.Attribute)
                        and n.value.attr == "country" for n in _mu_nodes)
        if not (naive_test and uses_zone):
            res.findings.append(Finding("R-LOCAL", f"{q} naive index", f"{q} no longer localises a naive (local-time) "
                                        f"index with the pattern's country time zone before comparing it with the "
                                        f"simulation date", rel, fn.lineno, q))
    rel, fn = pm.find_function("abstract_modeling_classes/explainable_objects.py", "ExplainableHourlyQuantities.convert_to_utc")
    # (the steps may sit in helpers of the class — `self._localize(self.value, tz.value)`, `self._merge(df, mask)`: they
    # are read where they are called, in the caller's terms)
    from ..astutil import nodes_through_helpers as _nthl
    _hfinder = pm.helper_finder("ExplainableHourlyQuantities")
    _all_calls = [n for n in _nthl(fn, _hfinder, depth=2) if isinstance(n, ast.Call)]
    calls = {c.func.attr: c for c in _all_calls if isinstance(c.func, ast.Attribute)}
    checks = []
    loc = calls.get("tz_localize")
    tzparam = fn.args.args[1].arg if len(fn.args.args) > 1 else "local_timezone"
    from ..astutil import fully_expanded as _fx
    checks.append(("localisation in the given zone", loc is not None and loc.args and any(
        isinstance(x, ast.Name) and x.id == tzparam for x in ast.walk(_fx(loc.args[0], fn)))))
    cv = calls.get("tz_convert")
    checks.append(("conversion to UTC", cv is not None and cv.args and isinstance(cv.args[0], ast.Constant)
                   and str(cv.args[0].value).upper() == "UTC"))
    checks.append(("hours skipped by daylight saving kept (nonexistent='shift_forward')",
                   loc is not None and any(k.arg == "nonexistent" and isinstance(k.value, ast.Constant)
                                           and k.value.value == "shift_forward" for k in loc.keywords)))
    gb = calls.get("groupby")
    summed = any(isinstance(c.func, ast.Attribute) and c.func.attr == "sum" and isinstance(c.func.value, ast.Call)
                 and isinstance(c.func.value.func, ast.Attribute) and c.func.value.func.attr == "groupby" for c in _all_calls)
    checks.append(("hours duplicated by daylight saving summed, not dropped", gb is not None and summed))
    dup = calls.get("duplicated")
    checks.append(("every duplicated hour taken into the merge (keep=False)",
                   dup is not None and any(k.arg == "keep" and isinstance(k.value, ast.Constant) and k.value.value is False
                                           for k in dup.keywords)))
    for what, ok in checks:
        res.instances += 1
        if not ok:
            res.findings.append(Finding("R-LOCAL", f"convert_to_utc :: {what.split(' (')[0]}", f"convert_to_utc lost: {what}",
                                        rel, fn.lineno, fn.name))
    # every returned frame flows from the per-timestamp conversion of the whole series
    converted = set()

    def is_converted(e):
        for c in _nthl(e, _hfinder, depth=2):
            if isinstance(c, ast.Call) and isinstance(c.func, ast.Attribute) and c.func.attr == "tz_convert":
                from ..astutil import enorm as _enorm, view_root as _vroot, fully_expanded as _fxx
                # (inside a helper the receiver of tz_convert may be a local of the helper: read its definition)
                hv = _vroot(c)[0]
                inner = _fxx(c.func.value, hv if hv is not None else fn)
                if any(isinstance(x, ast.Call) and isinstance(x.func, ast.Attribute) and x.func.attr == "tz_localize"
                       and _enorm(x.func.value, fn) == "self.value" for x in ast.walk(inner)):
                    return True
        names = [x.id for x in ast.walk(e) if isinstance(x, ast.Name) and x.id not in ("pd", "np", "self", tzparam)]
        frame_names = [n for n in names if n in assigned]
        return bool(frame_names) and all(n in converted for n in frame_names)
    assigned = {norm(n.targets[0]): n for n in ast.walk(fn) if isinstance(n, ast.Assign) and isinstance(n.targets[0], ast.Name)}
    all_defs = {}
    for n in ast.walk(fn):
        if isinstance(n, ast.Assign) and isinstance(n.targets[0], ast.Name):
            all_defs.setdefault(n.targets[0].id, []).append(n.value)
    for _ in range(4):
        for name, vals in all_defs.items():
            # every definition of the local (both arms of an if) comes from the per-timestamp conversion
            if all(is_converted(v) for v in vals):
                converted.add(name)
    for r in [n for n in ast.walk(fn) if isinstance(n, ast.Return) and n.value is not None]:
        res.instances += 1
        arg = r.value.args[0] if isinstance(r.value, ast.Call) and r.value.args else r.value
        if not is_converted(arg):
            res.findings.append(Finding(
                "R-LOCAL", f"convert_to_utc :: return path bypasses the conversion :: {norm(arg)[:50]}",
                f"convert_to_utc returns `{norm(arg)[:70]}`, which does not come from localising and converting every "
                f"timestamp of the series: a shortcut based on the offsets at the two ends places every hour between two "
                f"daylight-saving transitions one hour off", rel, r.lineno, fn.name))
    # the places that read a naive local-time index in its zone agree on how clock changes are read: the simulation filter
    # cuts the local series at a date by localising its index, and must see each hour where convert_to_utc put it (same
    # `nonexistent`, same reading of the repeated hour)
    def _amb(e):
        if e is None:
            return "<default: raise>"
        if isinstance(e, ast.Constant):
            return repr(e.value)
        t_ = norm(e)
        if isinstance(e, ast.Call):
            f_ = norm(e.func).split(".")[-1]
            fv = next((k.value for k in e.keywords if k.arg == "fill_value"), e.args[1] if (f_ == "full" and len(e.args) > 1) else None)
            if f_ == "full" and isinstance(fv, ast.Constant) and isinstance(fv.value, bool):
                return repr(fv.value)
            if f_ == "ones":
                return "True"
            if f_ == "zeros":
                return "False"
        return t_
    readings = []
    for mod_, (rel_, tree_, _s) in sorted(pm.modules.items()):
        for c_ in [x for x in ast.walk(tree_) if isinstance(x, ast.Call) and isinstance(x.func, ast.Attribute)
                   and x.func.attr == "tz_localize"]:
            ne = next((k.value for k in c_.keywords if k.arg == "nonexistent"), None)
            am = next((k.value for k in c_.keywords if k.arg == "ambiguous"), None)
            if ne is None and am is None:
                continue      # (no reading of its own: such a call raises on a skipped / repeated hour, or its zone has none)
            # (the flags may be prepared in a local: `all_hours_are_dst = np.full(n, True)`)
            host_ = c_
            while host_ is not None and not isinstance(host_, ast.FunctionDef):
                host_ = getattr(host_, "_parent", None)
            if host_ is not None:
                ne = _fx(ne, host_) if ne is not None else None
                am = _fx(am, host_) if am is not None else None
            readings.append((rel_, c_, norm(ne) if ne is not None else "<default: raise>", _amb(am)))
    res.instances += len(readings)
    # (a single shared localisation is consistent with itself; that both readers localise at all is judged above)
    if len({(r_[2], r_[3]) for r_ in readings}) > 1:
        ref = next((r_ for r_ in readings if r_[0].endswith("explainable_objects.py")), readings[0])
        for r_ in readings:
            if (r_[2], r_[3]) != (ref[2], ref[3]):
                res.findings.append(Finding(
                    "R-LOCAL", f"{r_[0]} :: tz_localize reads clock changes differently",
                    f"`{norm(r_[1])[:90]}` localises a naive local-time index with nonexistent={r_[2]}, ambiguous={r_[3]} "
                    f"while the converter to UTC uses nonexistent={ref[2]}, ambiguous={ref[3]}: on the night the clocks go "
                    f"back the repeated hour lands one hour apart in the two readings, so the simulation filter cuts the "
                    f"local series at another hour than the UTC series it is compared with", r_[0], r_[1].lineno, "tz_localize"))
    res.floor = 6
    return res


# ---------------------------------------------------------------------------------------------- C17 helpers
@rule("R-PLACEHOLDER")
def r_placeholder(E):
    pm = E.pm
    res = RuleResult("R-PLACEHOLDER", "when a builder passes a constant to its parent's constructor for a parameter and "
                                      "some rule reads that attribute, the attribute is one of the builder's calculated "
                                      "attributes (otherwise the job / server silently carries a zero)")
    read_pairs = set()
    for (c, x), cx in E.contexts().items():
        if cx is not None:
            read_pairs |= {(d, y) for (d, y, s) in cx.reads}
    for c in pm.ALL:
        seen = set()
        for k in pm.mro(c):
            sic = pm.super_init_call(k) if k in pm.classes and pm.init_of(k) is not None else None
            if not sic:
                continue
            pk, mapping, node = sic
            for p, expr in mapping.items():
                is_const = isinstance(expr, ast.Call) and isinstance(expr.func, ast.Name) and expr.func.id in (
                    "SourceValue", "SourceObject") and not any(isinstance(x, ast.Name) and x.id not in ("u", "Sources", "SourceValue", "SourceObject")
                                                               for x in ast.walk(expr))
                if not is_const or p in seen:
                    continue
                seen.add(p)
                res.instances += 1
                is_read = (c, p) in read_pairs
                if is_read and p not in pm.calc(c):
                    # a later assignment in a more derived constructor from a real parameter overrides the constant
                    ai = pm.init_attrs(c).get(p)
                    if ai is not None and ai.kind == "input" and ai.owner != pk and pm.issub(ai.owner, k):
                        continue
                    res.findings.append(Finding(
                        "R-PLACEHOLDER", f"{c}.{p}",
                        f"{k}.__init__ passes the constant {norm(expr)[:40]} for `{p}`, rules read {c}.{p}, but '{p}' is "
                        f"not in {c}.calculated_attributes: the builder's derived value is never computed and the model "
                        f"carries the placeholder", pm.path_of(k), node.lineno, f"{k}.__init__"))
                elif len(res.samples) < 5:
                    res.samples.append({"class": c, "parameter": p, "constant": norm(expr)[:40],
                                        "read_by_a_rule": is_read, "calculated": p in pm.calc(c)})
    res.floor = 18
    return res


@rule("R-SIB-JOB")
def r_sib_job(E):
    pm = E.pm
    res = RuleResult("R-SIB-JOB", "plain jobs and service jobs agree: both expose `server`, both list it (and their "
                                  "networks) among the objects that depend on them")
    G = E.G()
    for c in pm.ALL:
        if not pm.issub(c, "JobBase"):
            continue
        res.instances += 1
        out, cx = E.I.run_method(c, "server", Cx(c, "server")) if pm.find_method(c, "server")[1] is not None else (None, None)
        srv = set()
        if out is not None and out.k == "obj":
            srv = set(out.cls)
        elif pm.init_attrs(c).get("server") is not None:
            srv = set(pm.link_targets(c, "server"))
        if not srv:
            res.findings.append(Finding("R-SIB-JOB", f"{c}.server", f"{c} exposes no `server`", pm.path_of(c)))
            continue
        miss = srv - G.get(c, set())
        if miss:
            res.findings.append(Finding(
                "R-SIB-JOB", f"{c} dependants lack server",
                f"{c}.modeling_objects_whose_attributes_depend_directly_on_me does not list its server ({sorted(miss)}): "
                f"a change of the job's load is never propagated to the server", pm.path_of(c)))
        if "Network" not in G.get(c, set()):
            res.findings.append(Finding("R-SIB-JOB", f"{c} dependants lack networks",
                                        f"{c} no longer lists its networks as dependants", pm.path_of(c)))
        if len(res.samples) < 4:
            res.samples.append({"job_class": c, "server_classes": sorted(srv), "dependants": sorted(G.get(c, set()))})
    res.floor = 4
    return res


@rule("R-SERV")
def r_serv(E):
    pm = E.pm
    res = RuleResult("R-SERV", "a server accounts for what is installed on it: occupied RAM / compute add the base "
                               "consumption of every installed service to the server's own, and the server's jobs include "
                               "the jobs of its installed services")
    for c in pm.ALL:
        if not pm.issub(c, "ServerBase"):
            continue
        services = [s for s in pm.ALL if pm.issub(s, "Service") and c in pm.link_targets(s, "server")]
        for attr, base in (("occupied_ram_per_instance", "base_ram_consumption"),
                           ("occupied_compute_per_instance", "base_compute_consumption")):
            res.instances += 1
            cx = E.contexts().get((c, attr))
            if cx is None:
                continue
            anc = E.anc_of(c, attr)
            need = {(c, base)} | {(s, base) for s in services}
            miss = need - anc
            if miss:
                owner, fn = pm.find_method(c, "update_" + attr)
                res.findings.append(Finding(
                    "R-SERV", f"{c}.{attr} misses {sorted(m[0] for m in miss)}",
                    f"{c}.{attr} does not add {sorted(f'{a}.{b}' for a, b in miss)}: the service's base consumption is "
                    f"not reserved on the server", pm.path_of(owner), fn.lineno, f"{owner}.update_{attr}"))
        res.instances += 1
        out, cx = E.I.run_method(c, "jobs", Cx(c, "jobs"))
        got = set(out.elem.cls) if out is not None and out.elem is not None else set()
        want = set()
        for s in services:
            want |= {j for j in pm.ALL if pm.issub(j, "ServiceJob") and s in pm.link_targets(j, "service")}
        if want - got:
            res.findings.append(Finding("R-SERV", f"{c}.jobs misses {sorted(want - got)}",
                                        f"{c}.jobs does not include the jobs of its installed services "
                                        f"({sorted(want - got)}): their load is not placed on the server", pm.path_of("ServerBase")))
        elif len(res.samples) < 3:
            res.samples.append({"server_class": c, "installed_service_classes": services, "job_classes": sorted(got)})
    res.floor = 9
    return res


# ---------------------------------------------------------------------------------------------- R-SEL / R-IDFLOW
SEL_ALLOWED = {
    "ModelingObject.mod_objs_computation_chain": "work-list (x = wl[0]; wl = wl[1:]): every element is processed; the "
                                                 "order only permutes recomputations that R-ORDER shows independent",
}
SEL_SINGLETON_COLLECTIONS = {
    "systems": "an object belongs to at most one system (the clause R-GUARD decides): `.systems` has at most one element",
}


def _singleton_guard(n, coll, fn):
    """the path to the selection establishes len(coll) <= 1 (e.g. an earlier `if len(coll) > 1: raise`)"""
    from ..astutil import enorm, path_conditions, positive_atoms
    stmt = n
    while stmt is not None and not isinstance(stmt, ast.stmt):
        stmt = getattr(stmt, "_parent", None)
    if stmt is None or fn is None:
        return False
    c = enorm(coll, fn)
    true, false = positive_atoms(path_conditions(stmt, fn))
    for atoms, pos in ((true, True), (false, False)):
        for t in atoms:
            if not (isinstance(t, ast.Compare) and len(t.ops) == 1):
                continue
            l, r, op = enorm(t.left, fn), enorm(t.comparators[0], fn), t.ops[0]
            if l != f"len({c})" or not isinstance(t.comparators[0], ast.Constant):
                continue
            k = t.comparators[0].value
            if pos and ((isinstance(op, ast.Eq) and k == 1) or (isinstance(op, ast.LtE) and k == 1)
                        or (isinstance(op, ast.Lt) and k == 2)):
                return True
            if not pos and ((isinstance(op, ast.Gt) and k == 1) or (isinstance(op, ast.GtE) and k == 2)
                            or (isinstance(op, ast.NotEq) and k == 1)):
                return True
    return False


def _hash_ordered_props(pm):
    """names of properties (of model classes) whose value order derives from a set / from modeling_obj_containers"""
    names = {"modeling_obj_containers", "contextual_modeling_obj_containers"}
    changed = True
    while changed:
        changed = False
        for cn in pm.classes:
            if not pm.is_model(cn):
                continue
            for fn in pm.own_methods(cn):
                if not is_property(fn) or fn.name in names:
                    continue
                t = norm(fn)
                rets = [r.value for r in ast.walk(fn) if isinstance(r, ast.Return) and r.value is not None]
                hashy = "set(" in t or "set()" in t
                for r in rets:
                    for a in ast.walk(r):
                        if isinstance(a, ast.Attribute) and a.attr in names and isinstance(a.value, ast.Name):
                            # returned as is, or filtered: inherits the order
                            if norm(r) == norm(a) or isinstance(r, (ast.ListComp, ast.BinOp)):
                                hashy = True
                if hashy:
                    names.add(fn.name)
                    changed = True
    names.discard("contextual_modeling_obj_containers")
    return names


def _group_invariant(sel, lname, fn):
    """`sel` selects one member of the list `lname`, a loop variable over the lists of a local grouping dictionary, and
    what is read from that member is the key the dictionary groups by (or an attribute path below it): grouped by
    `x.country`, `group[0].country.average_carbon_intensity` is the same whichever member is taken"""
    used = []
    x, par = sel, getattr(sel, "_parent", None)
    while isinstance(par, ast.Attribute) and par.value is x:
        used.append(par.attr)
        x, par = par, getattr(par, "_parent", None)
    if not used:
        return False
    keys = []
    for it in _loop_iter_of(lname, fn):
        if not (isinstance(it, ast.Call) and isinstance(it.func, ast.Attribute) and it.func.attr in ("values", "items")
                and isinstance(it.func.value, ast.Name)):
            return False
        dname = it.func.value.id
        for c in ast.walk(fn):
            if isinstance(c, ast.Call) and isinstance(c.func, ast.Attribute) and c.func.attr == "append" and c.args \
                    and isinstance(c.args[0], ast.Name):
                b = c.func.value
                k = None
                if isinstance(b, ast.Call) and isinstance(b.func, ast.Attribute) and b.func.attr == "setdefault" \
                        and isinstance(b.func.value, ast.Name) and b.func.value.id == dname and b.args:
                    k = b.args[0]
                elif isinstance(b, ast.Subscript) and isinstance(b.value, ast.Name) and b.value.id == dname:
                    k = b.slice
                if k is not None:
                    keys.append((c.args[0].id, k))
    if not keys:
        return False
    for elem, k in keys:
        path = []
        y = k
        while isinstance(y, ast.Attribute):
            path.insert(0, y.attr)
            y = y.value
        if not (isinstance(y, ast.Name) and y.id == elem and path and used[:len(path)] == path):
            return False
    return True


@rule("R-SEL")
def r_sel(E):
    pm = E.pm
    res = RuleResult("R-SEL", "a positional selection ([0], [-1], next(iter(..)), .pop()) from a collection whose order "
                              "derives from a set or from the link registry only happens where the collection is a "
                              "proven singleton")
    hashy = _hash_ordered_props(pm)
    for mod, (rel, tree, src) in sorted(pm.modules.items()):
        for n in ast.walk(tree):
            coll = None
            if isinstance(n, ast.Subscript) and isinstance(n.slice, (ast.Constant, ast.UnaryOp)) and \
                    isinstance(getattr(n.slice, "value", getattr(getattr(n.slice, "operand", None), "value", None)), int):
                coll = n.value
            elif isinstance(n, ast.Call) and isinstance(n.func, ast.Name) and n.func.id == "next" and n.args:
                coll = n.args[0]
            elif isinstance(n, ast.Call) and isinstance(n.func, ast.Attribute) and n.func.attr == "pop" and not n.args:
                coll = n.func.value
            if coll is None:
                continue
            # the collection is a hash-ordered property, or a local assigned from one, or set(...) / list(set(...))
            fn = n
            while fn is not None and not isinstance(fn, ast.FunctionDef):
                fn = getattr(fn, "_parent", None)
            hot = False
            t = coll
            if isinstance(t, ast.Call) and isinstance(t.func, ast.Name) and t.func.id in ("list", "iter", "sorted"):
                if t.func.id == "sorted":
                    continue
                t = t.args[0] if t.args else t
            if isinstance(t, ast.Attribute) and t.attr in hashy:
                hot = True
            if isinstance(t, ast.Call) and isinstance(t.func, ast.Name) and t.func.id == "set":
                hot = True
            if isinstance(t, ast.Name) and fn is not None:
                for a in ast.walk(fn):
                    # (`x = <collection>` or, in a test, `(x := <collection>)`)
                    if (isinstance(a, ast.Assign) and any(isinstance(x, ast.Name) and x.id == t.id for x in a.targets)) or (
                            isinstance(a, ast.NamedExpr) and a.target.id == t.id):
                        v = a.value
                        if isinstance(v, ast.Attribute) and v.attr in hashy:
                            hot = True
                        if isinstance(v, ast.Call) and "set(" in norm(v):
                            hot = True
            if not hot and fn is not None and isinstance(t, ast.Name):
                # a local whose order comes, through grouping / filtering / copying, from such a collection
                hot = _order_source(t, fn, None, extra=lambda x: isinstance(x, ast.Attribute) and x.attr in hashy) is not None
            if not hot:
                continue
            res.instances += 1
            cls = fn
            while cls is not None and not isinstance(cls, ast.ClassDef):
                cls = getattr(cls, "_parent", None)
            q = (f"{cls.name}.{fn.name}" if cls is not None else fn.name) if fn is not None else "<module>"
            why = None
            if _singleton_guard(n, coll, fn):
                why = "the path to the selection establishes len(<collection>) <= 1 (guard that raises otherwise)"
            else:
                from ..astutil import expanded
                src_coll = expanded(t, fn) if fn is not None else t
                if isinstance(src_coll, ast.Name) and fn is not None:
                    ws_ = [a_.value for a_ in ast.walk(fn) if isinstance(a_, ast.NamedExpr) and a_.target.id == src_coll.id]
                    if len(ws_) == 1 and not any(isinstance(a_, ast.Assign) and any(
                            isinstance(x_, ast.Name) and x_.id == src_coll.id for x_ in a_.targets) for a_ in ast.walk(fn)):
                        src_coll = ws_[0]
                if isinstance(src_coll, ast.Attribute) and src_coll.attr in SEL_SINGLETON_COLLECTIONS:
                    why = SEL_SINGLETON_COLLECTIONS[src_coll.attr]
                elif q in SEL_ALLOWED:
                    why = SEL_ALLOWED[q]
            if why is None and isinstance(t, ast.Name) and fn is not None and _group_invariant(n, t.id, fn):
                why = "every member of the group agrees on what is read from the selected one (it is the grouping key)"
            if why is not None:
                if len(res.samples) < 6:
                    res.samples.append({"site": f"{rel}:{int(n.lineno)} {q}", "selection": norm(n)[:60],
                                        "singleton_because": why})
                continue
            res.findings.append(Finding(
                "R-SEL", f"{q} :: {norm(n)[:80]}",
                f"{q} picks an element by position from `{norm(coll)[:50]}`, whose order depends on hashing / creation "
                f"order of the link registry: with several elements the result changes between runs", rel, n.lineno, q))
    res.breakdown = {"hash_ordered_properties": sorted(hashy)}
    res.floor = 5
    return res


def _idish(e):
    """does the expression denote an identifier / hash value?"""
    if isinstance(e, ast.Attribute) and e.attr == "id":
        return True
    if isinstance(e, ast.Call) and isinstance(e.func, ast.Name) and e.func.id in ("id", "hash") and e.args:
        return True
    if isinstance(e, ast.Call) and "uuid" in norm(e.func):
        return True
    return False


@rule("R-IDFLOW")
def r_idflow(E):
    pm = E.pm
    res = RuleResult("R-IDFLOW", "identifiers (.id, id(), hash(), uuid) flow only into equality / membership tests, "
                                 "dictionary keys and strings — never into arithmetic, ordering comparisons or sort keys "
                                 "outside display code")
    from .units import _is_display
    loops = []
    for mod, (rel, tree, src) in sorted(pm.modules.items()):
        for n in ast.walk(tree):
            if not (isinstance(n, (ast.Attribute, ast.Call)) and _idish(n)):
                continue
            fn = n
            while fn is not None and not isinstance(fn, ast.FunctionDef):
                fn = getattr(fn, "_parent", None)
            if fn is not None and _is_display(rel, fn):
                continue
            res.instances += 1
            q = fn.name if fn is not None else "<module>"
            bad = None
            in_collection = False     # once the id sits in a list / tuple / comprehension, + and * act on the collection
            x, par = n, getattr(n, "_parent", None)
            while par is not None and not isinstance(par, (ast.stmt, ast.FunctionDef)):
                if isinstance(par, (ast.List, ast.Tuple, ast.Set, ast.ListComp, ast.SetComp, ast.GeneratorExp)) or \
                        (isinstance(par, ast.comprehension) and par.iter is not x):
                    in_collection = True
                if isinstance(par, ast.Compare) and any(isinstance(o, (ast.Lt, ast.Gt, ast.LtE, ast.GtE)) for o in par.ops):
                    bad = f"ordering comparison `{norm(par)[:60]}`"
                if isinstance(par, ast.BinOp) and not isinstance(par.op, (ast.Add,)) and not in_collection:
                    bad = f"arithmetic `{norm(par)[:60]}`"
                if isinstance(par, ast.BinOp) and isinstance(par.op, ast.Add) and not in_collection and not any(
                        isinstance(s, (ast.JoinedStr, ast.Constant)) and (isinstance(s, ast.JoinedStr) or isinstance(s.value, str))
                        for s in (par.left, par.right)) and not any(isinstance(y, ast.List) for y in (par.left, par.right)):
                    if not (isinstance(par.left, ast.Attribute) or isinstance(par.right, ast.Attribute)):
                        bad = f"arithmetic `{norm(par)[:60]}`"
                if isinstance(par, ast.Call) and isinstance(par.func, ast.Name) and par.func.id in ("sorted", "min", "max"):
                    bad = f"ordering call `{norm(par)[:60]}`"
                if isinstance(par, ast.Call) and isinstance(par.func, ast.Attribute) and par.func.attr == "sort":
                    bad = f"sort `{norm(par)[:60]}`"
                if isinstance(par, ast.Lambda):
                    gp = getattr(par, "_parent", None)
                    if isinstance(gp, ast.keyword) and gp.arg == "key":
                        bad = f"sort key `{norm(par)[:60]}`"
                # (`table[id(obj)]` / `table[hash(obj)]` with the bare identifier as subscript can only be a dictionary
                # look-up — a sequence would be out of range —, which is one of the allowed uses; an index *computed* from
                # it (`% n`) is arithmetic and reported above)
                if isinstance(par, (ast.JoinedStr, ast.FormattedValue)):
                    break
                x, par = par, getattr(par, "_parent", None)
            if bad and not (isinstance(n, ast.Call) and n.func.id == "hash" and q == "__hash__"):
                res.findings.append(Finding(
                    "R-IDFLOW", f"{rel}:{q} :: {norm(n)[:40]} in {bad[:70]}",
                    f"{q}: an identifier / hash value ({norm(n)[:40]}) is used in {bad}: results then depend on random "
                    f"identifiers or the process hash seed", rel, n.lineno, q))
    # listed, not alarmed: float accumulation over hash-ordered collections
    hashy = _hash_ordered_props(pm)
    for (c, x), cx in E.contexts().items():
        if cx is None:
            continue
        owner, fn = pm.find_method(c, "update_" + x)
        for n in ast.walk(fn):
            if isinstance(n, ast.For) and isinstance(n.iter, ast.Attribute) and n.iter.attr in hashy and any(
                    isinstance(s, ast.AugAssign) for s in ast.walk(n)):
                loops.append(f"{owner}.update_{x}: for … in {norm(n.iter)}")
    res.breakdown = {"float_accumulation_over_hash_ordered_collections (last-ulp hazard, listed not alarmed)": sorted(set(loops))}
    res.samples = [{"note": "identifier uses are equality/membership tests, dict keys, strings or log messages"}]
    res.floor = 60
    return res


# ---------------------------------------------------------------------------------------------- R-THREAD
def _exits(body):
    return bool(body) and isinstance(body[-1], (ast.Continue, ast.Break, ast.Return, ast.Raise))


def _flow(fn):
    """name -> parameters it derives from, data and control (assignments under a test depend on the test)"""
    params = {a.arg for a in fn.args.args}
    dep = {p: {p} for p in params}

    def names(e):
        out = set()
        for x in ast.walk(e):
            if isinstance(x, ast.Name) and x.id in dep:
                out |= dep[x.id]
        return out
    for _ in range(4):
        def walk(stmts, ctl):
            for s in stmts:
                if isinstance(s, ast.If) and (_exits(s.body) or _exits(s.orelse)):
                    # `if test: continue` makes what follows in the block depend on the test as well
                    c2 = ctl | names(s.test)
                    walk(s.body, c2)
                    walk(s.orelse, c2)
                    ctl = c2
                    continue
                if isinstance(s, ast.Return) and s.value is not None:
                    # which return executes is decided by the tests on the way to it
                    dep["<return>"] = dep.get("<return>", set()) | names(s.value) | ctl
                    continue
                if isinstance(s, ast.FunctionDef):
                    # a local function (a shape handed to a helper) derives from whatever it reads of the enclosing scope
                    inner = set()
                    for b in s.body:
                        inner |= names(b)
                    dep[s.name] = dep.get(s.name, set()) | inner | ctl
                    continue
                if isinstance(s, (ast.Assign, ast.AugAssign)):
                    src = names(s.value) | ctl
                    tg = s.targets if isinstance(s, ast.Assign) else [s.target]
                    for t in tg:
                        if isinstance(t, (ast.Subscript, ast.Attribute)):
                            # x[i] = v: x derives from v and from what selected the position (a mask, an index)
                            b = t
                            sel = set()
                            while isinstance(b, (ast.Subscript, ast.Attribute)):
                                if isinstance(b, ast.Subscript):
                                    sel |= names(b.slice)
                                b = b.value
                            if isinstance(b, ast.Name):
                                dep[b.id] = dep.get(b.id, set()) | src | sel
                            continue
                        for x in ast.walk(t):
                            if isinstance(x, ast.Name):
                                dep[x.id] = dep.get(x.id, set()) | src
                elif isinstance(s, ast.Expr) and isinstance(s.value, ast.Call) and isinstance(s.value.func, ast.Attribute) \
                        and isinstance(s.value.func.value, ast.Name) and s.value.func.attr in (
                            "append", "extend", "insert", "add", "update", "setdefault"):
                    # x.append(e): x now also derives from e (and from the tests it sits under)
                    x = s.value.func.value.id
                    dep[x] = dep.get(x, set()) | names(s.value) | ctl
                elif isinstance(s, ast.If):
                    c2 = ctl | names(s.test)
                    walk(s.body, c2)
                    walk(s.orelse, c2)
                elif isinstance(s, ast.For):
                    c2 = ctl | names(s.iter)
                    for x in ast.walk(s.target):
                        if isinstance(x, ast.Name):
                            dep[x.id] = dep.get(x.id, set()) | names(s.iter)
                    walk(s.body, c2)
        walk(fn.body, set())
    return dep, params, names


def _derives_from(expr, param, fn):
    """the argument is computed from the caller's parameter of that name and from no other parameter (a normalised copy:
    `sorted(set(hours))`, a local bound to it)"""
    from ..astutil import fully_expanded
    ps = {a.arg for a in fn.args.args}
    used = {x.id for x in ast.walk(fully_expanded(expr, fn)) if isinstance(x, ast.Name)} & ps
    return used == {param}


def _filters_of(expr, names):
    """comprehensions / filter() calls inside expr that keep only some elements of a collection named in `names`"""
    out = []
    for n in ast.walk(expr):
        if isinstance(n, (ast.ListComp, ast.SetComp, ast.GeneratorExp)):
            for g in n.generators:
                if g.ifs and any(isinstance(x, ast.Name) and x.id in names for x in ast.walk(g.iter)):
                    out.append(n)
        elif isinstance(n, ast.Call) and isinstance(n.func, ast.Name) and n.func.id == "filter" and len(n.args) == 2 \
                and any(isinstance(x, ast.Name) and x.id in names for x in ast.walk(n.args[1])):
            out.append(n)
    return out


@rule("R-NARROW")
def r_narrow(E):
    pm = E.pm
    res = RuleResult("R-NARROW", "no hourly-series builder replaces a selection the caller gave (active days, hours, values) by "
                                 "a filtered copy of it — directly or through a helper that returns one: the values given "
                                 "are reproduced or refused, never silently dropped (day 366 of a leap year, hour 23)")
    rel, tree = pm.raw_module_tree(TB)
    fns = {f.name: f for f in tree.body if isinstance(f, ast.FunctionDef)}
    # helpers that return a filtered copy of one of their parameters
    narrowing = {}
    for name, fn in fns.items():
        ps = [a.arg for a in fn.args.args]
        for r in [x for x in ast.walk(fn) if isinstance(x, ast.Return) and x.value is not None]:
            from ..astutil import fully_expanded as _fx
            v = _fx(r.value, fn)
            for p_ in ps:
                if _filters_of(v, {p_}):
                    narrowing.setdefault(name, set()).add(ps.index(p_))
    for name, fn in sorted(fns.items()):
        params = {a.arg for a in fn.args.args}
        for a in [x for x in ast.walk(fn) if isinstance(x, ast.Assign)]:
            tgt = {t.id for t in a.targets if isinstance(t, ast.Name)} & params
            if not tgt:
                continue
            res.instances += 1
            why = None
            if _filters_of(a.value, tgt):
                why = f"`{norm(a)[:70]}` keeps only some of the given {sorted(tgt)[0]}"
            for c in [x for x in ast.walk(a.value) if isinstance(x, ast.Call) and isinstance(x.func, ast.Name)
                      and x.func.id in narrowing]:
                cps = [y.arg for y in fns[c.func.id].args.args]
                given = {i: v for i, v in enumerate(c.args)}
                given.update({cps.index(k.arg): k.value for k in c.keywords if k.arg in cps})
                for i in narrowing[c.func.id]:
                    if i in given and any(isinstance(x, ast.Name) and x.id in tgt for x in ast.walk(given[i])):
                        why = f"`{norm(a)[:70]}`: {c.func.id} returns only some elements of its `{cps[i]}`"
            if why:
                res.findings.append(Finding(
                    "R-NARROW", f"{name} narrows {sorted(tgt)[0]}",
                    f"{name} replaces its parameter {sorted(tgt)[0]} by a filtered copy — {why}: values the caller asked "
                    f"for disappear without an error and the series carries nothing at the matching hours", rel,
                    a.lineno, name))
    res.floor = 2
    return res


@rule("R-MEMBER")
def r_member(E):
    pm = E.pm
    res = RuleResult("R-MEMBER", "what a system counts is what its usage_patterns list holds: a collection of usage patterns "
                                 "that update rules aggregate over is not the raw set of back links (modeling_obj_containers) "
                                 "of a shared object — a pattern taken out of the list, or built and never added, still "
                                 "points to its journey / network and would keep being counted")
    from ..astutil import fully_expanded as _fx
    members = set()
    for a, ai in pm.link_attrs("System").items():
        members |= set(ai.targets)
    linked_from = {}          # class D -> member classes M that hold a link to D
    for M in sorted(members):
        for k in [M] + pm.subclasses(M):
            for a, ai in pm.link_attrs(k).items():
                for D in ai.targets:
                    for d2 in [D] + pm.subclasses(D):
                        linked_from.setdefault(d2, set()).add(M)
    holders = {}               # class X -> classes that hold a link to X (what X.modeling_obj_containers contains)
    for k in pm.classes:
        if not pm.is_model(k):
            continue
        for a, ai in pm.link_attrs(k).items():
            for D in ai.targets:
                for d2 in [D] + pm.subclasses(D):
                    holders.setdefault(d2, set()).add(k)

    def methods_of(cn):
        out = {}
        for c in reversed(pm.mro(cn)):
            if c in pm.classes:
                for f in pm.own_methods(c):
                    out[f.name] = f
        return out

    def raw_backlinks(f):
        rets = [r.value for r in ast.walk(f) if isinstance(r, ast.Return) and r.value is not None]
        return bool(rets) and all(norm(_fx(r, f)) == "self.modeling_obj_containers" for r in rets)

    def elem_classes(cn, q):
        """classes of the elements of self.<q> in class cn: a link attribute, or a property that returns the back links"""
        ai = pm.init_attrs(cn).get(q)
        if ai is not None and ai.kind == "link":
            out = set()
            for t in ai.targets:
                out |= {t} | set(pm.subclasses(t))
            return out
        f = methods_of(cn).get(q)
        if f is not None and is_property(f) and raw_backlinks(f):
            out = set()
            for h in holders.get(cn, ()):
                out |= {h} | set(pm.subclasses(h))
            return out
        return set()

    # (class, property / method) pairs whose value reaches an update rule
    consumed, frontier = set(), []
    for cn in sorted(pm.classes):
        if not pm.is_model(cn) or cn == "System":
            continue
        for name, f in methods_of(cn).items():
            if name.startswith("update_"):
                frontier.append((cn, f))
    seen_f = set()
    while frontier:
        cn, f = frontier.pop()
        if (cn, f.name) in seen_f:
            continue
        seen_f.add((cn, f.name))
        ms = methods_of(cn)
        # loop / comprehension variables typed by what they iterate over
        var_cls = {}
        for n in ast.walk(f):
            if isinstance(n, (ast.For, ast.comprehension)) and isinstance(n.target, ast.Name) \
                    and isinstance(n.iter, ast.Attribute) and norm(n.iter.value) == "self":
                var_cls.setdefault(n.target.id, set()).update(elem_classes(cn, n.iter.attr))
        for n in ast.walk(f):
            if not isinstance(n, ast.Attribute):
                continue
            if isinstance(n.value, ast.Name):
                owners = {cn} if n.value.id == "self" else var_cls.get(n.value.id, set())
            elif isinstance(n.value, ast.Attribute) and isinstance(n.value.value, ast.Name):
                # self.<link>.<p> / <typed variable>.<link>.<p>
                inner = {cn} if n.value.value.id == "self" else var_cls.get(n.value.value.id, set())
                owners = set()
                for o in inner:
                    owners |= elem_classes(o, n.value.attr) if o in pm.classes else set()
            else:
                continue
            for o in owners:
                g = methods_of(o).get(n.attr) if o in pm.classes else None
                if g is not None and not n.attr.startswith("update_"):
                    consumed.add((o, n.attr))
                    frontier.append((o, g))
    for D in sorted(linked_from):
        for name, f in sorted(methods_of(D).items()):
            if not (is_property(f) and raw_backlinks(f)):
                continue
            res.instances += 1
            if (D, name) not in consumed:
                if len(res.samples) < 6:
                    res.samples.append({"property": f"{D}.{name}", "verdict": "raw back links, but no update rule aggregates over it"})
                continue
            owner = next((c for c in pm.mro(D) if c in pm.classes and any(m is f for m in pm.own_methods(c))), D)
            key = f"{owner}.{name} hands the raw back links to update rules"
            if any(x.key == key for x in res.findings):
                continue
            res.findings.append(Finding(
                "R-MEMBER", key,
                f"{owner}.{name} returns self.modeling_obj_containers — every {'/'.join(sorted(linked_from[D]))} that points to this "
                f"object, in the system's list or not — and update rules aggregate over it: after "
                f"`system.usage_patterns.remove(up)` (or `= [others]`) the removed pattern still points to its journey and "
                f"network, so jobs, servers and the network keep its traffic; removing what was just appended does not "
                f"restore the previous footprints", pm.classes[owner].path, f.lineno, f"{owner}.{name}"))
    res.floor = 2
    return res


@rule("R-SPREAD")
def r_spread(E):
    pm = E.pm
    res = RuleResult("R-SPREAD", "a volume spread over a selection of hours / days is divided by the number of *distinct* "
                                 "members when the values are placed by membership (`hour in hours`): dividing by len(list) "
                                 "counts an hour listed twice twice and places it once, so the day carries less than the "
                                 "requested volume")
    rel, tree = pm.raw_module_tree(TB)
    fns = {f.name: f for f in tree.body if isinstance(f, ast.FunctionDef)}

    def membership_params(fn, seen=()):
        """parameters of fn that end up on the right of an `in` test, here or in a builder they are handed to"""
        ps = [a.arg for a in fn.args.args]
        out = set()
        from ..astutil import fully_expanded as _fxm
        for n in ast.walk(fn):
            sets_ = []
            if isinstance(n, ast.Compare) and any(isinstance(o, (ast.In, ast.NotIn)) for o in n.ops):
                sets_ = list(n.comparators)
            elif isinstance(n, ast.Call) and norm(n.func) in ("np.isin", "numpy.isin", "np.in1d") and len(n.args) >= 2:
                sets_ = [n.args[1]]          # the vectorised membership test
            elif isinstance(n, ast.Call) and isinstance(n.func, ast.Attribute) and n.func.attr == "isin" and len(n.args) == 1:
                sets_ = [n.args[0]]          # <index>.isin(<selection>)
            for c in sets_:
                for x in ast.walk(_fxm(c, fn)):
                    if isinstance(x, ast.Name) and x.id in ps:
                        out.add(x.id)
            # placed by walking the *set* of the members (`for h in set(hours) & set(range(24)): values[…] = share`): each
            # distinct member is placed once, as with a membership test
            if isinstance(n, (ast.For, ast.comprehension)):
                it_ = _fxm(n.iter, fn)
                if any(isinstance(c_, ast.Call) and norm(c_.func) in ("set", "frozenset") for c_ in ast.walk(it_)):
                    for x in ast.walk(it_):
                        if isinstance(x, ast.Name) and x.id in ps:
                            out.add(x.id)
            if isinstance(n, ast.Call) and isinstance(n.func, ast.Name) and n.func.id in fns and n.func.id not in seen \
                    and n.func.id != fn.name:
                callee = fns[n.func.id]
                cps = [a.arg for a in callee.args.args]
                inner = membership_params(callee, seen + (fn.name,))
                given = {cps[i]: a for i, a in enumerate(n.args) if i < len(cps)}
                given.update({k.arg: k.value for k in n.keywords if k.arg})
                for cp, a in given.items():
                    if cp in inner:
                        for x in ast.walk(_fxm(a, fn)):
                            if isinstance(x, ast.Name) and x.id in ps:
                                out.add(x.id)
        return out

    # (the builders, and the methods of the value classes of the module they are written with)
    methods = {f"{k.name}.{m.name}": m for k in tree.body if isinstance(k, ast.ClassDef) for m in k.body
               if isinstance(m, ast.FunctionDef)}
    for name, fn in sorted(list(fns.items()) + list(methods.items())):
        mp = membership_params(fn)
        for n in ast.walk(fn):
            if not (isinstance(n, ast.BinOp) and isinstance(n.op, (ast.Div, ast.FloorDiv))):
                continue
            r = n.right
            if not (isinstance(r, ast.Call) and isinstance(r.func, ast.Name) and r.func.id == "len" and r.args):
                continue
            a = r.args[0]
            from ..astutil import fully_expanded as _fxs
            if isinstance(a, ast.Name) and a.id not in mp:
                # a local: what it stands for (through the small helpers of the module: `sorted_distinct_values(hours)`)
                ex = _fxs(a, fn)
                for _ in range(2):
                    for c_ in [x for x in ast.walk(ex) if isinstance(x, ast.Call) and isinstance(x.func, ast.Name) and x.func.id in fns]:
                        h_ = fns[c_.func.id]
                        b_ = [b for b in h_.body if not (isinstance(b, ast.Expr) and isinstance(b.value, ast.Constant))]
                        if len(b_) == 1 and isinstance(b_[0], ast.Return) and b_[0].value is not None and len(h_.args.args) == len(c_.args):
                            from ..astutil import substitute as _subs
                            rep = _subs(b_[0].value, {p_.arg: v_ for p_, v_ in zip(h_.args.args, c_.args)})
                            ex = _subs(ex, {}) if False else ast.parse(norm(ex).replace(norm(c_), norm(rep)), mode="eval").body
                if any(isinstance(x, ast.Name) and x.id in mp for x in ast.walk(ex)):
                    a = ex
            if not (isinstance(a, ast.Name) and a.id in mp):
                if any(isinstance(c_, ast.Call) and norm(c_.func) in ("set", "frozenset", "dict.fromkeys") and c_.args
                       and isinstance(c_.args[0], ast.Name) and c_.args[0].id in mp for c_ in ast.walk(a)):
                    res.instances += 1
                    if len(res.samples) < 3:
                        res.samples.append({"function": name, "divisor": norm(r), "verdict": "counts distinct members"})
                continue
            res.instances += 1
            # the parameter deduplicated before the division counts as distinct too
            dedup = any(isinstance(x, ast.Assign) and any(isinstance(t, ast.Name) and t.id == a.id for t in x.targets)
                        and x.lineno < n.lineno and any(isinstance(c, ast.Call) and norm(c.func) in ("set", "frozenset", "dict.fromkeys")
                                                        for c in ast.walk(x.value)) for x in ast.walk(fn))
            if not dedup:
                res.findings.append(Finding(
                    "R-SPREAD", f"{name} divides by len({a.id})",
                    f"{name} computes `{norm(n)[:60]}` and the values are then placed where `<hour> in {a.id}`: with a "
                    f"repeated element ({a.id}=[8, 8, 20]) the divisor is 3 and two hours receive a share, so each full day "
                    f"sums to 2/3 of the requested volume", rel, n.lineno, name))
    res.floor = 1
    return res


@rule("R-FLOATBUF")
def r_floatbuf(E):
    pm = E.pm
    res = RuleResult("R-FLOATBUF", "the array an hourly-series builder fills with the requested volumes is allocated with a "
                                   "floating-point type: numpy truncates a float stored into an integer array without a "
                                   "word (2.5 -> 2, 33.33 -> 33, 0.2 -> 0), so np.zeros_like(<an integer index>), "
                                   "np.full(n, 0) or dtype=int under `values[mask] = volume` loses the fractional part")
    rel, tree = pm.raw_module_tree(TB)
    from ..astutil import fully_expanded
    for fn in [f for f in tree.body if isinstance(f, ast.FunctionDef)]:
        params = {a.arg for a in fn.args.args}
        # arrays written by item / mask assignment with something that derives from a parameter
        written = {}
        for a in ast.walk(fn):
            if isinstance(a, (ast.Assign, ast.AugAssign)):
                for t in (a.targets if isinstance(a, ast.Assign) else [a.target]):
                    if isinstance(t, ast.Subscript) and isinstance(t.value, ast.Name) and any(
                            isinstance(x, ast.Name) and x.id in params for x in ast.walk(fully_expanded(a.value, fn))):
                        written.setdefault(t.value.id, a)
        for name, store in sorted(written.items()):
            defs = [d for d in ast.walk(fn) if isinstance(d, ast.Assign) and any(
                isinstance(t, ast.Name) and t.id == name for t in d.targets)]
            for d in defs:
                c = d.value
                if not (isinstance(c, ast.Call) and norm(c.func).startswith(("np.", "numpy."))):
                    continue
                res.instances += 1
                f = norm(c.func).split(".", 1)[1]
                kws = {k.arg: k.value for k in c.keywords}
                dt = kws.get("dtype")
                why = None
                if dt is not None:
                    if norm(dt) in ("int", "np.int32", "np.int64", "np.int_", "'int'", "'int64'", "bool", "np.bool_"):
                        why = f"dtype={norm(dt)}"
                elif f in ("zeros_like", "empty_like", "ones_like", "full_like"):
                    why = f"np.{f}({norm(c.args[0])[:30] if c.args else ''}, …) takes the type of its model array whatever the fill value (an index of hours / days is made of integers)"
                elif f == "full":
                    fill = kws.get("fill_value", c.args[1] if len(c.args) > 1 else None)
                    if isinstance(fill, ast.Constant) and isinstance(fill.value, int) and not isinstance(fill.value, bool):
                        why = f"np.{f}(…, {fill.value}) is an integer array"
                if why:
                    res.findings.append(Finding(
                        "R-FLOATBUF", f"{fn.name} :: {name} allocated as integers",
                        f"{fn.name} fills `{name}` with the requested volume (`{norm(store)[:50]}`) but allocates it with "
                        f"{why}: a non-integer volume per hour (100 a day over 3 hours) is truncated towards zero", rel,
                        d.lineno, fn.name))
                elif len(res.samples) < 3:
                    res.samples.append({"function": fn.name, "buffer": name, "allocation": norm(c)[:60], "verdict": "float"})
    res.floor = 1
    return res


MULTIPLICITY_LISTS = {"uj_steps": "a journey may go through the same step twice", "jobs": "a job listed twice in a step runs twice"}


@rule("R-DUPKEY")
def r_dupkey(E):
    pm = E.pm
    res = RuleResult("R-DUPKEY", "the members of a list link in which multiplicity counts (the steps of a journey, the jobs "
                                 "of a step) are not made the keys of a dict that is then walked to add one term per entry: "
                                 "a member listed twice is one key, so its second occurrence contributes nothing")
    from ..astutil import fully_expanded, nodes_through_helpers
    for mod, (rel, tree, src) in sorted(pm.modules.items()):
        if not (rel.startswith("efootprint/core") or rel.startswith("efootprint/builders/services")):
            continue
        for cls in [c for c in tree.body if isinstance(c, ast.ClassDef)]:
            for fn in [f for f in cls.body if isinstance(f, ast.FunctionDef)]:
                res.instances += 1
                finder = pm.helper_finder(cls.name) if cls.name in pm.classes else None
                for n in nodes_through_helpers(fn, finder, depth=2):
                    keys_from = None
                    if isinstance(n, ast.Call) and isinstance(n.func, ast.Name) and n.func.id == "dict" and len(n.args) == 1 \
                            and isinstance(n.args[0], ast.Call) and norm(n.args[0].func) == "zip" and n.args[0].args:
                        keys_from = n.args[0].args[0]
                    elif isinstance(n, ast.DictComp) and len(n.generators) == 1 and isinstance(n.generators[0].target, ast.Name) \
                            and norm(n.key) == n.generators[0].target.id and not n.generators[0].ifs:
                        keys_from = n.generators[0].iter
                    if keys_from is None:
                        continue
                    host = n
                    while host is not None and not isinstance(host, ast.FunctionDef):
                        host = getattr(host, "_parent", None)
                    t = norm(fully_expanded(keys_from, host) if host is not None else keys_from)
                    attr = t.split(".")[-1]
                    if attr in MULTIPLICITY_LISTS and "." in t and not t.startswith(("set(", "list(set(")):
                        res.findings.append(Finding(
                            "R-DUPKEY", f"{cls.name}.{fn.name} :: dict keyed by the members of {t[:50]}",
                            f"{cls.name}.{fn.name} builds `{norm(n)[:70]}`: its keys are the members of `{t[:50]}`, a list in "
                            f"which multiplicity counts ({MULTIPLICITY_LISTS[attr]}) — a member listed twice is a single key, "
                            f"so what is computed per entry counts it once", rel, n.lineno, f"{cls.name}.{fn.name}"))
    res.floor = 100
    return res


@rule("R-ONESIDED")
def r_onesided(E):
    pm = E.pm
    res = RuleResult("R-ONESIDED", "in the hourly-series builders a position computed with a subtraction (it can be negative) "
                                   "that is filtered against the length of the series is filtered against 0 as well: numpy "
                                   "reads a negative position from the end, so a value that falls before the start of the "
                                   "series lands a few hours before its end instead of being left out")
    from ..astutil import fully_expanded
    rel, tree = pm.raw_module_tree(TB)
    for fn in [f for f in tree.body if isinstance(f, ast.FunctionDef)]:
        for comp in [n for n in ast.walk(fn) if isinstance(n, (ast.ListComp, ast.GeneratorExp))]:
            for g in comp.generators:
                if not (isinstance(g.target, ast.Name) and g.ifs):
                    continue
                v = g.target.id
                src = fully_expanded(g.iter, fn)
                # the elements come from an arithmetic expression with a subtraction
                elt = src.elt if isinstance(src, (ast.ListComp, ast.GeneratorExp)) else None
                if elt is None or not any(isinstance(b, ast.BinOp) and isinstance(b.op, ast.Sub) for b in ast.walk(elt)):
                    continue
                uppers, lowers = [], []
                for t in g.ifs:
                    for c in [x for x in ast.walk(t) if isinstance(x, ast.Compare)]:
                        terms = [c.left] + list(c.comparators)
                        for (a, op, b) in zip(terms, c.ops, terms[1:]):
                            an, bn = norm(a), norm(b)
                            if an == v and isinstance(op, (ast.Lt, ast.LtE)) and bn not in ("0",):
                                uppers.append(c)
                            if bn == v and isinstance(op, (ast.Gt, ast.GtE)) and an not in ("0",):
                                uppers.append(c)
                            if (an == v and isinstance(op, (ast.Gt, ast.GtE)) and bn in ("0", "-1")) or \
                                    (bn == v and isinstance(op, (ast.Lt, ast.LtE)) and an in ("0", "-1")):
                                lowers.append(c)
                if not uppers:
                    continue
                res.instances += 1
                if not lowers:
                    res.findings.append(Finding(
                        "R-ONESIDED", f"{fn.name} :: {v} bounded above only",
                        f"{fn.name} keeps the positions `{norm(elt)[:60]}` that are `{norm(uppers[0])[:40]}` but not those that "
                        f"are >= 0: with a start date that is not at midnight a requested hour earlier than the start hour "
                        f"gives a negative position on the first day, which numpy counts from the end of the series", rel,
                        comp.lineno, fn.name))
                elif len(res.samples) < 3:
                    res.samples.append({"function": fn.name, "positions": norm(elt)[:60], "verdict": "bounded on both sides"})
    # a strided slice `values[first::24]` whose first position is a bare difference: negative when the subtrahend is the
    # larger one (a requested hour earlier than the start hour), and a negative start counts from the end of the array — the
    # stride then covers one stray position near the end instead of that hour of every day. `(a - b) % 24` does not.
    for fn in [f for f in ast.walk(tree) if isinstance(f, ast.FunctionDef)]:
        for sub in [n for n in ast.walk(fn) if isinstance(n, ast.Subscript) and isinstance(n.slice, ast.Slice)
                    and n.slice.step is not None and n.slice.lower is not None]:
            res.instances += 1
            lo = fully_expanded(n_ := sub.slice.lower, fn)
            if isinstance(lo, ast.BinOp) and isinstance(lo.op, ast.Sub) and not isinstance(lo.right, ast.Constant):
                res.findings.append(Finding(
                    "R-ONESIDED", f"{fn.name} :: strided slice from {norm(lo)[:50]}",
                    f"{fn.name} fills `{norm(sub)[:70]}`: the first position `{norm(lo)[:50]}` is negative whenever "
                    f"`{norm(lo.right)[:30]}` is the larger term (a chosen hour earlier than the hour the series starts at), and "
                    f"numpy counts a negative start from the end of the array — that hour of the day is never filled and one "
                    f"stray value lands near the end of the series", rel, sub.lineno, fn.name))
            elif len(res.samples) < 3:
                res.samples.append({"function": fn.name, "strided slice": norm(sub)[:70], "verdict": "first position not a bare difference"})
    res.samples.append({"embedded": "expected count on the pinned tree: 0 (no position arithmetic); checked on refactorings"})
    return res


@rule("R-THREAD")
def r_thread(E):
    pm = E.pm
    res = RuleResult("R-THREAD", "every hourly-series builder threads start_date, pint_unit and each of its value "
                                 "parameters into the frame it returns (directly or through the same-named parameter of "
                                 "the builder it delegates to); every date_range starts at start_date and is hourly")
    rel, tree = pm.module_tree(TB)
    fns = {f.name: f for f in tree.body if isinstance(f, ast.FunctionDef)}
    raw_fns = {f.name: f for f in pm.raw_module_tree(TB)[1].body if isinstance(f, ast.FunctionDef)}
    for name, fn in sorted(fns.items()):
        dep, params, names = _flow(fn)
        rets = [r for r in ast.walk(fn) if isinstance(r, ast.Return) and r.value is not None]
        if not rets:
            continue
        flows = set(dep.get("<return>", set()))
        for r in rets:
            flows |= names(r.value)
        for p in sorted(params):
            res.instances += 1
            if p not in flows:
                res.findings.append(Finding(
                    "R-THREAD", f"{name} drops {p}",
                    f"{name}: parameter `{p}` does not reach the returned series: the builder ignores the requested "
                    f"{'start date' if p == 'start_date' else 'unit' if p == 'pint_unit' else p}", rel, fn.lineno, name))
        # delegation through same-named parameters (call sites as written: the canonical form may have replaced the
        # call by the callee's body)
        raw_fn = raw_fns.get(name, fn)
        for c in _calls(raw_fn):
            if isinstance(c.func, ast.Name) and c.func.id in fns:
                callee = fns[c.func.id]
                cps = [a.arg for a in callee.args.args]
                for i, a in enumerate(c.args):
                    if i < len(cps) and cps[i] in params:
                        res.instances += 1
                        if norm(a).split("__")[0] != cps[i] and not _derives_from(a, cps[i], raw_fn):      # (a local of an inlined helper is `<name>__<helper>`)
                            res.findings.append(Finding(
                                "R-THREAD", f"{name} -> {c.func.id}({cps[i]}={norm(a)[:20]})",
                                f"{name} passes `{norm(a)[:30]}` as {c.func.id}'s `{cps[i]}` although it has a parameter of "
                                f"that name", rel, c.lineno, name))
                for k in c.keywords:
                    if k.arg in params:
                        res.instances += 1
                        if norm(k.value).split("__")[0] != k.arg and not _derives_from(k.value, k.arg, raw_fn):
                            res.findings.append(Finding(
                                "R-THREAD", f"{name} -> {c.func.id}({k.arg}={norm(k.value)[:20]})",
                                f"{name} passes `{norm(k.value)[:30]}` as {c.func.id}'s `{k.arg}`", rel, c.lineno, name))
        for c in _calls(fn):
            if norm(c.func) == "pd.date_range":
                # only the range that becomes the time line of the series: the index of the frame built here, or what this
                # function returns (an auxiliary calendar — the days of the span, to find positions — is not the time line)
                par_ = getattr(c, "_parent", None)
                tl_names = {t.id for t in par_.targets if isinstance(t, ast.Name)} if isinstance(par_, ast.Assign) else set()
                is_index = isinstance(par_, ast.keyword) and par_.arg == "index"
                is_index = is_index or any(isinstance(d, ast.Call) and norm(d.func) == "pd.DataFrame" and any(
                    k.arg == "index" and isinstance(k.value, ast.Name) and k.value.id in tl_names for k in d.keywords)
                    for d in ast.walk(fn))
                is_index = is_index or isinstance(par_, ast.Return) or any(
                    isinstance(r, ast.Return) and isinstance(r.value, ast.Name) and r.value.id in tl_names for r in ast.walk(fn))
                # a loop over it that fills the values by position makes it the time line as well
                is_index = is_index or any(isinstance(l, ast.For) and any(
                    isinstance(x, ast.Name) and x.id in tl_names for x in ast.walk(l.iter)) for l in ast.walk(fn))
                if not is_index:
                    continue
                res.instances += 1
                kws = {k.arg: k.value for k in c.keywords}
                fr = kws.get("freq")
                if not (isinstance(fr, ast.Constant) and str(fr.value).lower() == "h") or norm(kws.get("start")) != "start_date":
                    res.findings.append(Finding(
                        "R-THREAD", f"{name} date_range",
                        f"{name}: the time line is not `pd.date_range(start=start_date, …, freq='h')`: the series does "
                        f"not start at the requested date or is not hourly", rel, c.lineno, name))
            if norm(c.func) == "pd.DataFrame":
                res.instances += 1
                kws = {k.arg: norm(k.value) for k in c.keywords}
                if "pint_unit" not in kws.get("dtype", "") or kws.get("columns") != "['value']" or "index" not in kws:
                    res.findings.append(Finding("R-THREAD", f"{name} DataFrame",
                                                f"{name}: the frame is not built with index=<the time line>, "
                                                f"columns=['value'] and a pint dtype in pint_unit", rel, c.lineno, name))
        # inside `for i, period in enumerate(<time line>)`: what decides values[i] is read from the timestamp
        for L in [n for n in ast.walk(fn) if isinstance(n, ast.For) and isinstance(n.iter, ast.Call)
                  and norm(n.iter.func) == "enumerate" and isinstance(n.target, ast.Tuple) and len(n.target.elts) == 2]:
            idx, ts = norm(n_ := L.target.elts[0]), norm(L.target.elts[1])
            ldep = {idx: {idx}, ts: {ts}}
            for _ in range(3):
                for a in ast.walk(L):
                    if isinstance(a, ast.Assign) and isinstance(a.targets[0], ast.Name):
                        src = set()
                        for x in ast.walk(a.value):
                            if isinstance(x, ast.Name) and x.id in ldep:
                                src |= ldep[x.id]
                        ldep[a.targets[0].id] = ldep.get(a.targets[0].id, set()) | src
            guards = [n for n in ast.walk(L) if isinstance(n, ast.If) and (any(
                isinstance(a, ast.Assign) and isinstance(a.targets[0], ast.Subscript) and norm(a.targets[0].slice) == idx
                for a in ast.walk(n)) or _exits(n.body))]
            for iff in guards:
                for x in ast.walk(iff.test):
                    if isinstance(x, ast.Name) and x.id in ldep and x.id not in (idx, ts):
                        res.instances += 1
                        if ts not in ldep[x.id]:
                            key = f"{name} {x.id} not read from the timestamp"
                            if not any(fd.key == key for fd in res.findings):
                                res.findings.append(Finding(
                                    "R-THREAD", key,
                                    f"{name}: `{x.id}` decides which hours carry the volume but is computed from the "
                                    f"position `{idx}` in the series, not from the timestamp `{ts}`: for a start date "
                                    f"that is not at midnight (or not on the assumed day) the volume lands on the wrong "
                                    f"hours", rel, x.lineno, name))
        if len(res.samples) < 8:
            res.samples.append({"builder": name, "parameters_reaching_the_result": sorted(flows & params)})
    res.floor = 40
    return res


# ---------------------------------------------------------------------------------------------- R-ZEROCUT
def _is_zero(e):
    if isinstance(e, ast.Constant) and e.value == 0 and not isinstance(e.value, bool):
        return True
    if isinstance(e, ast.BinOp) and isinstance(e.op, ast.Mult):
        return _is_zero(e.left) or _is_zero(e.right)
    return False


@rule("R-ZEROCUT")
def r_zerocut(E):
    pm = E.pm
    res = RuleResult("R-ZEROCUT", "in model code an empty value (EmptyExplainableObject) is produced only under tests that "
                                  "mean `nothing there` (emptiness, None, == 0): never under an ordering test against 0, "
                                  "which would send negative quantities (legal for data_stored: deletion jobs) through "
                                  "the `nothing` shortcut")
    from ..astutil import path_conditions, positive_atoms, enorm
    for mod, (rel, tree, src) in sorted(pm.modules.items()):
        if not (rel.startswith("efootprint/core") or rel.startswith("efootprint/builders")):
            continue
        for n in ast.walk(tree):
            if not isinstance(n, (ast.Return, ast.Assign)) or n.value is None:
                continue
            if not any(isinstance(c, ast.Call) and isinstance(c.func, ast.Name) and c.func.id == "EmptyExplainableObject"
                       for c in ast.walk(n.value)):
                continue
            # the empty value is the statement's own value (possibly relabelled), not an accumulator's start
            v = n.value
            while isinstance(v, ast.Call) and isinstance(v.func, ast.Attribute) and v.func.attr in ("set_label",):
                v = v.func.value
            if not (isinstance(v, ast.Call) and isinstance(v.func, ast.Name) and v.func.id == "EmptyExplainableObject"):
                continue
            fn = n
            while fn is not None and not isinstance(fn, ast.FunctionDef):
                fn = getattr(fn, "_parent", None)
            if fn is None:
                continue
            true, false = positive_atoms(path_conditions(n, fn))
            if not true and not false:
                continue      # unconditional initialisation
            res.instances += 1
            cls = fn
            while cls is not None and not isinstance(cls, ast.ClassDef):
                cls = getattr(cls, "_parent", None)
            q = f"{cls.name}.{fn.name}" if cls is not None else fn.name
            bad = None
            for t in true + false:
                for c in ast.walk(t):
                    if isinstance(c, ast.Compare) and len(c.ops) == 1 and isinstance(c.ops[0], (ast.Lt, ast.LtE, ast.Gt, ast.GtE)):
                        l, r = c.left, c.comparators[0]
                        other = r if _is_zero(l) else l if _is_zero(r) else None
                        if other is None:
                            continue
                        if isinstance(other, ast.Call) and isinstance(other.func, ast.Name) and other.func.id == "len":
                            continue
                        bad = c
            if bad is not None:
                res.findings.append(Finding(
                    "R-ZEROCUT", f"{q} :: empty under {enorm(bad, fn)[:70]}",
                    f"{q} yields an empty value on a path decided by the ordering test `{norm(bad)[:60]}`: a negative "
                    f"quantity (a job that deletes data has data_stored < 0) takes the `nothing to compute` shortcut and "
                    f"its contribution disappears — only `== 0` / emptiness may short-circuit", rel, n.lineno, q))
            elif len(res.samples) < 4:
                res.samples.append({"site": f"{rel}:{int(n.lineno)} {q}", "under": [norm(t)[:50] for t in true] +
                                    ["not " + norm(t)[:46] for t in false]})
    res.floor = 5     # 7 conditional empty values on the pinned tree
    return res


# ---------------------------------------------------------------------------------------------- R-LASTWINS
@rule("R-LASTWINS")
def r_lastwins(E):
    pm = E.pm
    res = RuleResult("R-LASTWINS", "inside a loop over a collection whose order derives from a set / the link registry, no "
                                   "store overwrites one and the same location with a value that changes from one "
                                   "iteration to the next (the last element — an accident of hashing — would win)")
    hashy = _hash_ordered_props(pm)
    for mod, (rel, tree, src) in sorted(pm.modules.items()):
        if not (rel.startswith("efootprint/core") or rel.startswith("efootprint/builders")):
            continue
        for L in [n for n in ast.walk(tree) if isinstance(n, ast.For)]:
            it = L.iter
            if isinstance(it, ast.Call) and isinstance(it.func, ast.Name) and it.func.id in ("list", "enumerate") and it.args:
                it = it.args[0]
            hot = (isinstance(it, ast.Attribute) and it.attr in hashy) or \
                  (isinstance(it, ast.Call) and isinstance(it.func, ast.Name) and it.func.id in ("set", "frozenset"))
            if not hot:
                continue
            res.instances += 1
            fn = L
            while fn is not None and not isinstance(fn, ast.FunctionDef):
                fn = getattr(fn, "_parent", None)
            cls = fn
            while cls is not None and not isinstance(cls, ast.ClassDef):
                cls = getattr(cls, "_parent", None)
            q = (f"{cls.name}.{fn.name}" if cls is not None else fn.name) if fn is not None else "<module>"
            var = {x.id for x in ast.walk(L.target) if isinstance(x, ast.Name)}
            # locals derived from the loop variable inside the body
            for _ in range(4):
                for n in ast.walk(L):
                    if isinstance(n, ast.Assign) and any(isinstance(x, ast.Name) and x.id in var for x in ast.walk(n.value)):
                        for t in n.targets:
                            var |= {x.id for x in ast.walk(t) if isinstance(x, ast.Name) and isinstance(x.ctx, ast.Store)}
                    if isinstance(n, (ast.For, ast.comprehension)) and n is not L and any(
                            isinstance(x, ast.Name) and x.id in var for x in ast.walk(n.iter)):
                        var |= {x.id for x in ast.walk(n.target) if isinstance(x, ast.Name)}
            for n in ast.walk(L):
                if not isinstance(n, ast.Assign):
                    continue
                for t in n.targets:
                    if not isinstance(t, (ast.Subscript, ast.Attribute)):
                        continue
                    tnames = {x.id for x in ast.walk(t) if isinstance(x, ast.Name)}
                    vnames = {x.id for x in ast.walk(n.value) if isinstance(x, ast.Name)}
                    base = t
                    while isinstance(base, (ast.Subscript, ast.Attribute)):
                        base = base.value
                    # a container created inside the loop body is a fresh location at every iteration
                    fresh = isinstance(base, ast.Name) and any(
                        isinstance(a, ast.Assign) and any(isinstance(tt, ast.Name) and tt.id == base.id for tt in a.targets)
                        for a in ast.walk(L))
                    if not (tnames & var) and (vnames & var) and not fresh:
                        res.findings.append(Finding(
                            "R-LASTWINS", f"{q} :: {norm(t)[:60]} in loop over {norm(L.iter)[:40]}",
                            f"{q}: `{norm(n)[:80]}` is executed for every element of `{norm(L.iter)[:40]}` (an order that "
                            f"depends on hashing / random ids); the location does not depend on the element but the value "
                            f"does, so the result is whatever element happens to come last", rel, n.lineno, q))
    res.floor = 12     # 17 loops over hash-ordered collections in model code on the pinned tree
    return res


# ---------------------------------------------------------------------------------------------- R-NAMEKEY
_NK_POSITIVE = '''
class P:
    @property
    def per_device(self):
        return {device.name: device.footprint * one_hour for device in self.devices}
    def per_job(self):
        out = {}
        for job in self.jobs:
            out[f"{job.name}"] = job.energy
        return out
'''
_NK_NEGATIVE = '''
class P:
    def per_device(self):
        return {device.id: device.footprint for device in self.devices}
    def per_obj(self):
        return {device: device.footprint for device in self.devices}
    def labels(self):
        return {device.id: device.name for device in self.devices}
    def both(self):
        return {(device.name, device.id): device.footprint for device in self.devices}
'''


def name_keyed_tables(tree):
    """[(node, key, loop var)]: tables with one entry per element of a collection, keyed by the element's free-text name"""
    out = []

    def by_name_only(key, var):
        names = [x for x in ast.walk(key) if isinstance(x, ast.Attribute) and isinstance(x.value, ast.Name) and x.value.id in var]
        if not names or any(x.attr != "name" for x in names):
            return False
        # the element itself in the key (a tuple (obj, obj.name)) keeps the entries apart
        bare = [x for x in ast.walk(key) if isinstance(x, ast.Name) and x.id in var
                and not (isinstance(getattr(x, "_parent", None), ast.Attribute) and x._parent.value is x)]
        return not bare

    for n in ast.walk(tree):
        if isinstance(n, ast.DictComp):
            var = set()
            for g in n.generators:
                var |= {x.id for x in ast.walk(g.target) if isinstance(x, ast.Name)}
            if by_name_only(n.key, var):
                out.append((n, n.key, sorted(var)))
        elif isinstance(n, ast.For):
            var = {x.id for x in ast.walk(n.target) if isinstance(x, ast.Name)}
            for a in ast.walk(n):
                key = None
                if isinstance(a, (ast.Assign, ast.AugAssign)):
                    for t in (a.targets if isinstance(a, ast.Assign) else [a.target]):
                        if isinstance(t, ast.Subscript):
                            key = t.slice
                elif isinstance(a, ast.Call) and isinstance(a.func, ast.Attribute) and a.func.attr == "setdefault" and a.args:
                    key = a.args[0]
                if key is not None and by_name_only(key, var):
                    out.append((a, key, sorted(var)))
    return out


@rule("R-NAMEKEY")
def r_namekey(E):
    pm = E.pm
    res = RuleResult("R-NAMEKEY", "in model code a table holding one term per object of a collection is keyed by the object "
                                  "or its id, never by its name alone: names are free text (Device.laptop() twice, two "
                                  "jobs called 'upload'), entries of the same name overwrite one another, and what is "
                                  "summed from the table then drops objects and depends on which one is listed last")
    for mod, (rel, tree, src) in sorted(pm.modules.items()):
        if not (rel.startswith("efootprint/core") or rel.startswith("efootprint/builders")):
            continue
        res.instances += len([n for n in ast.walk(tree) if isinstance(n, (ast.DictComp, ast.For))])
        for n, key, var in name_keyed_tables(tree):
            fn = n
            while fn is not None and not isinstance(fn, ast.FunctionDef):
                fn = getattr(fn, "_parent", None)
            cls = fn
            while cls is not None and not isinstance(cls, ast.ClassDef):
                cls = getattr(cls, "_parent", None)
            q = (f"{cls.name}.{fn.name}" if cls is not None else fn.name) if fn is not None else "<module>"
            res.findings.append(Finding(
                "R-NAMEKEY", f"{q} :: key {norm(key)[:40]}",
                f"{q} builds a table with one entry per element ({', '.join(var)}) keyed by `{norm(key)[:40]}`: names are not "
                f"unique, two elements of the same name share one entry and the one listed last wins — a sum over the "
                f"table loses an object and changes when the list is permuted", rel, n.lineno, q))
    pos = name_keyed_tables(set_parents(ast.parse(_NK_POSITIVE)))
    neg = name_keyed_tables(set_parents(ast.parse(_NK_NEGATIVE)))
    if len(pos) != 2 or neg:
        raise AnalysisError(f"R-NAMEKEY: embedded examples: {len(pos)} of 2 positive recognised, {len(neg)} false reports")
    res.instances += 2
    res.samples = [{"embedded_positive_examples_recognised": 2, "embedded_twins_silent": True}]
    res.floor = 30
    return res


# ---------------------------------------------------------------------------------------------- R-TRUNC
@rule("R-TRUNC")
def r_trunc(E):
    pm = E.pm
    res = RuleResult("R-TRUNC", "in the hourly-series builders a number of hours / periods is never obtained by truncating "
                                "(int(), math.floor, //) the float of a pint unit conversion (`.to(u.hour).magnitude`): "
                                "conversion noise (1 day + 7 hours = 30.999999999999996 h) drops the last hour; the count "
                                "goes through timedelta (microsecond rounding) or an explicit round()")
    from ..astutil import fully_expanded
    rel, tree = pm.module_tree(TB)
    # (the builders and the methods of the small value classes of the module they are written with)
    for fn in [n for n in tree.body if isinstance(n, ast.FunctionDef)] + [
            m for k in tree.body if isinstance(k, ast.ClassDef) for m in k.body if isinstance(m, ast.FunctionDef)]:
        for c in _calls(fn):
            trunc = (isinstance(c.func, ast.Name) and c.func.id == "int") or norm(c.func) in ("math.floor", "np.floor")
            if not trunc or not c.args:
                continue
            a = fully_expanded(c.args[0], fn)
            t = norm(a)
            if ".to(" not in t or ".magnitude" not in t and ".m" not in t:
                continue
            res.instances += 1
            absorbed = _noise_absorbed(a)
            if not absorbed:
                res.findings.append(Finding(
                    "R-TRUNC", f"{fn.name} :: {norm(c)[:80]}",
                    f"{fn.name} truncates a converted duration (`{norm(c)[:70]}`): a span that is a whole number of hours "
                    f"but whose conversion is a hair below it (1 day + 7 hours -> 30.999999999999996 h) loses its last "
                    f"hour", rel, c.lineno, fn.name))
            elif len(res.samples) < 3:
                res.samples.append({"function": fn.name, "count": norm(c)[:90], "verdict": "noise absorbed before truncation"})
        # floor division of a converted duration
        for b in [n for n in ast.walk(fn) if isinstance(n, ast.BinOp) and isinstance(n.op, ast.FloorDiv)]:
            t = norm(fully_expanded(b, fn))
            if ".to(" in t and ".magnitude" in t:
                res.instances += 1
                res.findings.append(Finding("R-TRUNC", f"{fn.name} :: {norm(b)[:80]}", f"{fn.name} floor-divides a converted "
                                            f"duration (`{norm(b)[:70]}`)", rel, b.lineno, fn.name))
    res.floor = 1     # 3 sites on the pinned tree; one shared helper would be 1
    return res


# ---------------------------------------------------------------------------------------------- R-ONCE
def _concat_without_set(e):
    """the expression concatenates lists taken from several objects (sum([...], start=[]) or a two-level comprehension)
    and the result is not passed through set()"""
    def is_concat(x):
        if isinstance(x, ast.Call) and isinstance(x.func, ast.Name) and x.func.id == "sum" and x.args:
            st = next((k.value for k in x.keywords if k.arg == "start"), x.args[1] if len(x.args) > 1 else None)
            return isinstance(st, ast.List) and not st.elts
        if isinstance(x, ast.ListComp) and len(x.generators) >= 2:
            return True
        return False
    if is_concat(e):
        return True
    if isinstance(e, ast.Call) and isinstance(e.func, ast.Name) and e.func.id == "list" and e.args:
        return _concat_without_set(e.args[0])
    if isinstance(e, ast.BinOp) and isinstance(e.op, ast.Add):
        return _concat_without_set(e.left) or _concat_without_set(e.right)
    return False


def _functional_property(pm, pname, owners):
    """for every class in `owners`, the property `pname` is a plain reverse look-up (the holders of self), and every
    link through which such an owner can be held is a single link: an object then appears in the `pname` of one owner
    only, so concatenating over owners cannot repeat it"""
    if not owners:
        return False
    links = pm.public_links()
    for cn in owners:
        o, f = pm.find_method(cn, pname)
        if f is None or not is_property(f):
            return False
        rets = [r.value for r in ast.walk(f) if isinstance(r, ast.Return) and r.value is not None]
        for r in rets:
            t = norm(r)
            if "modeling_obj_containers" not in t or "sum(" in t or (isinstance(r, ast.ListComp) and len(r.generators) > 1):
                return False
        targets = set([cn] + pm.subclasses(cn))
        for (K, l), (kind, tg) in links.items():
            if targets & set(tg) and kind != "one":
                return False
    return True


def _overlapping_concat(E, cls, e):
    """_concat_without_set(e), unless what is concatenated is a functional reverse look-up of each owner"""
    if not _concat_without_set(e):
        return False
    pm = E.pm
    parts = []
    for x in ast.walk(e):
        if isinstance(x, ast.Call) and isinstance(x.func, ast.Name) and x.func.id == "sum" and x.args \
                and isinstance(x.args[0], (ast.ListComp, ast.GeneratorExp)):
            parts.append((x.args[0].elt, x.args[0].generators[0].iter))
        elif isinstance(x, ast.ListComp) and len(x.generators) >= 2:
            parts.append((x.generators[1].iter, x.generators[0].iter))
    for p_, over in parts:
        owners = set()
        if isinstance(over, ast.Attribute) and isinstance(over.value, ast.Name) and over.value.id == "self":
            if (cls, over.attr) in pm.public_links():
                owners = set(pm.link_targets(cls, over.attr))
            else:
                try:
                    out, cx = E.I.run_method(cls, over.attr, Cx(cls, over.attr))
                    if out is not None and out.elem is not None:
                        owners = set(out.elem.cls)
                except Exception:
                    owners = set()
        if isinstance(p_, ast.Attribute) and _functional_property(pm, p_.attr, owners):
            continue
        return True
    return False


@rule("R-ONCE")
def r_once(E):
    pm = E.pm
    res = RuleResult("R-ONCE", "a rule that adds up one term per element of self.<collection> iterates a collection that "
                               "holds each object once: a navigation property that concatenates its containers' lists "
                               "(sum(..., start=[])) is de-duplicated with set() before it is summed over")
    from ..astutil import fully_expanded
    seen = set()
    for (c, x), cx in sorted(E.contexts().items()):
        if cx is None:
            continue
        owner, fn = pm.find_method(c, "update_" + x)
        fns = [(owner, fn)]
        for q in set(cx.calls):
            k, m = q.split(".", 1)
            if k in pm.classes:
                o2, f2 = pm.find_method(k, m)
                if f2 is not None:
                    fns.append((o2, f2))
        for o, f in fns:
            for L in [n for n in ast.walk(f) if isinstance(n, (ast.For, ast.comprehension))]:
                it = L.iter
                if not (isinstance(it, ast.Attribute) and isinstance(it.value, ast.Name) and it.value.id == "self"):
                    continue
                if isinstance(L, ast.For):
                    accum = any(isinstance(s_, ast.AugAssign) and isinstance(s_.op, ast.Add) for s_ in ast.walk(L))
                else:
                    par = getattr(L, "_parent", None)
                    gp = getattr(par, "_parent", None)
                    accum = isinstance(gp, ast.Call) and isinstance(gp.func, ast.Name) and gp.func.id == "sum"
                if not accum:
                    continue
                key = (c, o, f.name, it.attr)
                if key in seen:
                    continue
                seen.add(key)
                po, prop = pm.find_method(c, it.attr)
                if prop is None or not is_property(prop):
                    continue
                res.instances += 1
                rets = [r for r in ast.walk(prop) if isinstance(r, ast.Return) and r.value is not None]
                bad = [r for r in rets if _overlapping_concat(E, c, fully_expanded(r.value, prop))]
                if bad:
                    fk = f"{po}.{it.attr} summed over by {o}.{f.name}"
                    if not any(fd.key == fk for fd in res.findings):
                        res.findings.append(Finding(
                            "R-ONCE", fk,
                            f"{o}.{f.name} adds one term per element of self.{it.attr}, but {po}.{it.attr} concatenates the "
                            f"lists of several containers (`{norm(bad[0].value)[:70]}`) without de-duplicating: an object "
                            f"reached through two containers (a job used in two steps of one journey) is counted twice",
                            pm.path_of(po), prop.lineno, f"{po}.{it.attr}"))
                elif len(res.samples) < 5:
                    res.samples.append({"rule": f"{o}.{f.name}", "sums_over": f"self.{it.attr}", "defined_in": po,
                                        "verdict": "de-duplicated or a plain link list"})
    res.floor = 8
    return res


# ---------------------------------------------------------------------------------------------- R-SETORDER (C19, C13, C16)
_SET_OPS = (ast.Sub, ast.BitOr, ast.BitAnd, ast.BitXor)
_SET_METHODS = {"union", "intersection", "difference", "symmetric_difference"}
_POSITIVE_SETORDER = """
def rebuild(ids, table):
    wanted = set(i for i in ids if i in table)
    return ListLinkedToModelingObj([table[i] for i in wanted - {None}])
"""


def _fn_of(n):
    x = getattr(n, "_parent", None)
    while x is not None and not isinstance(x, ast.FunctionDef):
        x = getattr(x, "_parent", None)
    return x


def _defs_of(name, fn):
    return [n.value for n in ast.walk(fn) if isinstance(n, ast.Assign) and any(
        isinstance(t, ast.Name) and t.id == name for t in n.targets)] if fn is not None else []


def _is_set(e, fn, seen=()):
    """e is statically a set: its iteration order depends on the process hash seed / on (random) identifiers"""
    if isinstance(e, (ast.Set, ast.SetComp)):
        return True
    if isinstance(e, ast.Call):
        if isinstance(e.func, ast.Name) and e.func.id in ("set", "frozenset"):
            return True
        if isinstance(e.func, ast.Attribute) and e.func.attr in _SET_METHODS:
            return True
    if isinstance(e, ast.BinOp) and isinstance(e.op, _SET_OPS):
        def view(x):
            return isinstance(x, ast.Call) and isinstance(x.func, ast.Attribute) and x.func.attr in ("keys", "items")
        return _is_set(e.left, fn, seen) or _is_set(e.right, fn, seen) or view(e.left) or view(e.right)
    if isinstance(e, ast.Name) and e.id not in seen:
        ds = _defs_of(e.id, fn)
        return bool(ds) and all(_is_set(d, fn, seen + (e.id,)) for d in ds)
    return False


def _loop_iter_of(name, fn):
    """the iterables of the for loops / comprehensions of fn whose target binds `name`"""
    out = []
    for n in ast.walk(fn):
        if isinstance(n, (ast.For, ast.comprehension)) and any(
                isinstance(x, ast.Name) and x.id == name for x in ast.walk(n.target)):
            out.append(n.iter)
    return out


def _grouped_lists_sources(dname, fn):
    """iterables of the loops inside which lists stored in the local dict `dname` are filled
    (`d.setdefault(k, []).append(x)`, `d[k].append(x)`, `d[k] = d.get(k, []) + [x]`, `d[k] += [x]`)"""
    out = []
    for c in ast.walk(fn):
        hit = False
        if isinstance(c, ast.Call) and isinstance(c.func, ast.Attribute) and c.func.attr in ("append", "extend", "insert"):
            b = c.func.value
            if isinstance(b, ast.Call) and isinstance(b.func, ast.Attribute) and b.func.attr in ("setdefault", "get") \
                    and isinstance(b.func.value, ast.Name) and b.func.value.id == dname:
                hit = True
            if isinstance(b, ast.Subscript) and isinstance(b.value, ast.Name) and b.value.id == dname:
                hit = True
        if isinstance(c, (ast.Assign, ast.AugAssign)):
            for t in (c.targets if isinstance(c, ast.Assign) else [c.target]):
                if isinstance(t, ast.Subscript) and isinstance(t.value, ast.Name) and t.value.id == dname:
                    hit = True
        if hit:
            x = getattr(c, "_parent", None)
            while x is not None and x is not fn:
                if isinstance(x, ast.For):
                    out.append(x.iter)
                x = getattr(x, "_parent", None)
    return out


def _order_source(e, fn, find_function, depth=3, seen=(), extra=None):
    """the expression (text) of a set — or of a collection `extra` recognises — whose iteration order decides the order
    of the list e, or None: followed through list() / comprehensions / append loops / local names / loop variables over
    grouped dictionaries / package functions that return the list"""
    if e is None:
        return None
    if _is_set(e, fn) or (extra is not None and extra(e)):
        return e
    if isinstance(e, (ast.ListComp, ast.GeneratorExp)):
        for g in e.generators:
            r = _order_source(g.iter, fn, find_function, depth, seen, extra)
            if r is not None:
                return r
        return None
    if isinstance(e, ast.Call):
        if isinstance(e.func, ast.Name) and e.func.id == "sorted":
            return None
        if isinstance(e.func, ast.Name) and e.func.id in ("list", "tuple", "reversed", "iter", "enumerate") and e.args:
            return _order_source(e.args[0], fn, find_function, depth, seen, extra)
        if isinstance(e.func, ast.Attribute) and norm(e.func) == "dict.fromkeys" and e.args:
            return _order_source(e.args[0], fn, find_function, depth, seen, extra)
        if isinstance(e.func, ast.Name) and depth > 0 and find_function is not None:
            h = find_function(e.func.id)
            if h is not None and h.name not in seen:
                from ..astutil import helper_view
                hv = helper_view(h, e)
                for r in [n for n in ast.walk(hv) if isinstance(n, ast.Return) and n.value is not None]:
                    s = _order_source(r.value, hv, find_function, depth - 1, seen + (h.name,), extra)
                    if s is not None:
                        return s
        return None
    if isinstance(e, ast.BinOp) and isinstance(e.op, ast.Add):
        return _order_source(e.left, fn, find_function, depth, seen, extra) or _order_source(e.right, fn, find_function, depth, seen, extra)
    if isinstance(e, ast.Name) and fn is not None and ("$" + e.id) not in seen:
        seen2 = seen + ("$" + e.id,)
        for d in _defs_of(e.id, fn):
            s = _order_source(d, fn, find_function, depth, seen2, extra)
            if s is not None:
                return s
        for c in ast.walk(fn):
            if isinstance(c, ast.Call) and isinstance(c.func, ast.Attribute) and isinstance(c.func.value, ast.Name) \
                    and c.func.value.id == e.id and c.func.attr in ("append", "extend", "insert"):
                if c.func.attr == "extend" and c.args:
                    s = _order_source(c.args[0], fn, find_function, depth, seen2, extra)
                    if s is not None:
                        return s
                x = getattr(c, "_parent", None)
                while x is not None and x is not fn:
                    if isinstance(x, ast.For):
                        s = _order_source(x.iter, fn, find_function, depth, seen2, extra)
                        if s is not None:
                            return s
                    x = getattr(x, "_parent", None)
        for a in ast.walk(fn):
            if isinstance(a, ast.AugAssign) and isinstance(a.target, ast.Name) and a.target.id == e.id:
                s = _order_source(a.value, fn, find_function, depth, seen2, extra)
                if s is not None:
                    return s
        # a loop variable that ranges over the lists of a local grouping dictionary: each list is in the order of the
        # loop that filled it
        for it in _loop_iter_of(e.id, fn):
            if isinstance(it, ast.Call) and isinstance(it.func, ast.Attribute) and it.func.attr in ("values", "items") \
                    and isinstance(it.func.value, ast.Name):
                for src in _grouped_lists_sources(it.func.value.id, fn):
                    s = _order_source(src, fn, find_function, depth, seen2, extra)
                    if s is not None:
                        return s
    return None


@rule("R-SETORDER")
def r_setorder(E):
    pm = E.pm
    res = RuleResult("R-SETORDER", "the content handed to a stored link list (ListLinkedToModelingObj(...)) never takes its "
                                   "order from the iteration of a set: link lists are ordered (the steps of a journey are "
                                   "walked in list order) and set order depends on the hash seed and on random identifiers")
    from ..astutil import set_parents
    pf = pm.package_function_finder()

    def sites(tree):
        for n in ast.walk(tree):
            if isinstance(n, ast.Call) and isinstance(n.func, ast.Name) and n.func.id == "ListLinkedToModelingObj" and n.args:
                yield n
    for mod, (rel, tree, src) in sorted(pm.modules.items()):
        for n in sites(tree):
            res.instances += 1
            fn = _fn_of(n)
            s = _order_source(n.args[0], fn, pf)
            if s is not None:
                q = fn.name if fn is not None else "<module>"
                res.findings.append(Finding(
                    "R-SETORDER", f"{q} :: link list ordered by a set :: {norm(s)[:60]}",
                    f"{q} builds the link list `{norm(n)[:70]}` in the iteration order of the set `{norm(s)[:70]}`: the order "
                    f"of the stored list (for a journey, the order of its steps, which decides the hour of every job) "
                    f"then depends on the hash seed and on the objects' random identifiers, and duplicates are lost", rel,
                    n.lineno, q))
            elif len(res.samples) < 6:
                res.samples.append({"site": f"{rel}:{int(n.lineno)}", "list": norm(n)[:70]})
    # the rule still recognises the construct it forbids
    pos = set_parents(ast.parse(_POSITIVE_SETORDER))
    if not any(_order_source(n.args[0], _fn_of(n), None) is not None for n in sites(pos)):
        raise AnalysisError("R-SETORDER: the embedded positive example is no longer recognised")
    res.floor = 6
    return res


# ---------------------------------------------------------------------------------------------- R-REST (C03)
_TIME_UNITS = {"hour", "h", "s", "second", "min", "minute", "day", "ms", "millisecond"}


def _converted_duration(t):
    return ".to(" in t and (".magnitude" in t or ".m" in t.split(".to(")[-1]) and any(f"u.{x}" in t for x in _TIME_UNITS)


def _noise_absorbed(e):
    """every unit conversion `.to(…)` of the expression lies inside a round(…, n) / timedelta(…): rounding *before* the
    conversion leaves the noise of the conversion in the result"""
    def inside(n):
        for r in ast.walk(e):
            if isinstance(r, ast.Call) and norm(r.func).split(".")[-1] in ("round", "timedelta") and r is not n \
                    and any(x is n for a in list(r.args) + [k.value for k in r.keywords] for x in ast.walk(a)):
                return True
        return False
    tos = [n for n in ast.walk(e) if isinstance(n, ast.Call) and isinstance(n.func, ast.Attribute) and n.func.attr == "to"]
    return bool(tos) and all(inside(n) for n in tos)


def _record_rest_zero_tests(pm, cls, fn, trunc, trunc_names):
    from ..astutil import expansions, _bind_call, clone, substitute_stmt, fold_static, fully_expanded
    out = []
    fields = [b.target.id for b in cls.body if isinstance(b, ast.AnnAssign) and isinstance(b.target, ast.Name)]
    # the field(s) that receive `x - trunc`
    rest_fields = set()
    for k in [x for x in ast.walk(fn) if isinstance(x, ast.Call) and isinstance(x.func, ast.Name)
              and x.func.id in ("cls", cls.name)]:
        for i, a in enumerate(k.args):
            a2 = fully_expanded(a, fn)
            if i < len(fields) and isinstance(a2, ast.BinOp) and isinstance(a2.op, ast.Sub) and any(
                    isinstance(x, ast.Call) and norm(x.func) == norm(trunc.func) for x in ast.walk(a2.right)):
                rest_fields.add(fields[i])
            elif i < len(fields) and isinstance(a, ast.BinOp) and isinstance(a.op, ast.Sub) \
                    and isinstance(a.right, ast.Name) and a.right.id in trunc_names:
                rest_fields.add(fields[i])
    if not rest_fields:
        return out
    askers = {}
    for m in [x for x in cls.body if isinstance(x, ast.FunctionDef) and x is not fn]:
        for t_ in ast.walk(m):
            if isinstance(t_, ast.Compare) and len(t_.ops) == 1 and isinstance(t_.left, ast.Attribute) \
                    and norm(t_.left.value) == "self" and t_.left.attr in rest_fields \
                    and isinstance(t_.ops[0], (ast.Gt, ast.NotEq, ast.GtE)) \
                    and isinstance(t_.comparators[0], ast.Constant) and t_.comparators[0].value == 0:
                askers[m.name] = t_
    if not askers:
        return out
    for mod, (rel, tree, _) in sorted(pm.modules.items()):
        for caller in [n for n in ast.walk(tree) if isinstance(n, ast.FunctionDef)]:
            for at in [x for x in ast.walk(caller) if isinstance(x, ast.Attribute) and x.attr in askers]:
                call = fully_expanded(at.value, caller)
                if not (isinstance(call, ast.Call) and isinstance(call.func, ast.Attribute) and call.func.attr == fn.name
                        and norm(call.func.value) in (cls.name, "cls")):
                    continue
                hv = clone(fn)
                m_ = _bind_call(fn, call)
                hv.body = [substitute_stmt(b, m_) for b in hv.body]
                fold_static(hv)
                for n_ in ast.walk(hv):
                    for ch in ast.iter_child_nodes(n_):
                        ch._parent = n_
                tr = [x for x in ast.walk(hv) if isinstance(x, ast.Call) and norm(x.func) == norm(trunc.func)]
                for x in tr:
                    arg = x.args[0]
                    # the duration whose remainder is kept: through the round() that only protects the truncation
                    while isinstance(arg, ast.Call) and norm(arg.func) == "round" and arg.args:
                        arg = arg.args[0]
                    noisy = [a_ for a_ in expansions(arg, hv) if _converted_duration(norm(a_)) and not _noise_absorbed(a_)]
                    if noisy:
                        pc = getattr(caller, "_parent", None)
                        q = f"{pc.name}.{caller.name}" if isinstance(pc, ast.ClassDef) else caller.name
                        out.append(Finding(
                            "R-HOURNOISE", f"{q} :: remainder of a converted duration compared with 0",
                            f"{q} asks `{cls.name}.{fn.name}(…).{at.attr}`, which tests `{norm(askers[at.attr])}` on the "
                            f"remainder `x - {norm(trunc.func)}(…)` of `{norm(noisy[0])[:80]}`: the unit conversion is the last "
                            f"step, so 3 600 000 ms leaves a remainder of 2.2e-16 where 1 hour leaves 0 and the answer differs "
                            f"by one hour with the unit the duration was typed in", rel, at.lineno, q))
    return out


@rule("R-REST")
def r_rest(E):
    pm = E.pm
    res = RuleResult("R-REST", "where the occupancy / placement code truncates a duration downwards (int(), math.floor, //, "
                               "divmod) the truncated-away part is either used (`x - floor(x)`: the partly covered last "
                               "hour) or the result is the whole-hour shift the property itself prescribes; a truncation "
                               "whose remainder vanishes makes occurrence-hours smaller than occurrences x duration")
    from ..astutil import fully_expanded
    sites = [("core/usage/compute_nb_occurrences_in_parallel.py", "compute_nb_avg_hourly_occurrences", None),
             ("abstract_modeling_classes/explainable_objects.py",
              "ExplainableHourlyQuantities.return_shifted_hourly_quantities", "ExplainableHourlyQuantities")]
    for suffix, q, cn in sites:
        rel, fn0 = pm.find_function(suffix, q)
        finder = pm.helper_finder(cn) if cn else None
        # the function and the helpers it calls, each analysed as the function it is
        fns, seen = [fn0], {fn0.name}
        for c in [x for x in ast.walk(fn0) if isinstance(x, ast.Call)]:
            h = None
            if isinstance(c.func, ast.Name):
                h = pm.package_function_finder()(c.func.id)
            elif finder is not None and isinstance(c.func, ast.Attribute) and norm(c.func.value) == "self":
                h = finder(c.func.attr)
            elif isinstance(c.func, ast.Attribute) and isinstance(c.func.value, ast.Name):
                h = pm.package_class_method_finder()(c.func.value.id, c.func.attr)
            if h is not None and h.name not in seen:
                seen.add(h.name)
                # read in the caller's terms: a duration converted by the caller and handed over as an argument is still
                # that converted duration inside the helper
                try:
                    from ..astutil import _bind_call, clone as _cln, substitute_stmt as _sbs
                    m_ = {k: fully_expanded(v, fn0) for k, v in _bind_call(h, c).items()}
                    hv = _cln(h)
                    hv.body = [_sbs(b, m_) for b in hv.body]
                    from ..astutil import fold_static as _fold
                    _fold(hv)
                    for n_ in ast.walk(hv):
                        for ch in ast.iter_child_nodes(n_):
                            ch._parent = n_
                    hv._parent = getattr(h, "_parent", None)
                    fns.append(hv)
                except Exception:
                    fns.append(h)
        for fn in fns:
            for c in [x for x in ast.walk(fn) if isinstance(x, (ast.Call, ast.BinOp))]:
                if isinstance(c, ast.Call):
                    f = norm(c.func)
                    if f not in ("int", "math.floor", "np.floor", "math.trunc", "floor", "trunc", "divmod") or not c.args:
                        continue
                    arg = c.args[0]
                else:
                    if not isinstance(c.op, ast.FloorDiv):
                        continue
                    f, arg = "//", c.left
                xa = fully_expanded(arg, fn)
                # (floor(round(x, n)): the noise absorbed first — the duration truncated is x)
                while isinstance(xa, ast.Call) and norm(xa.func) == "round" and len(xa.args) == 2 \
                        and isinstance(xa.args[1], ast.Constant) and isinstance(xa.args[1].value, int) and xa.args[1].value >= 1:
                    xa = xa.args[0]
                t = norm(xa)
                if not _converted_duration(t):
                    continue
                # divmod(x, k) / x // k of an already truncated x is judged at the inner truncation
                if any(isinstance(y, ast.Call) and norm(y.func) in ("int", "math.floor", "np.floor", "math.trunc")
                       and y is not c for y in ast.walk(arg)):
                    continue
                res.instances += 1
                # (a) the remainder is used: some `X - T` / `X % k` in the function with X the same duration
                holder = c
                par = getattr(c, "_parent", None)
                names = {tg.id for tg in par.targets if isinstance(tg, ast.Name)} if isinstance(par, ast.Assign) and par.value is c else set()

                def is_trunc(e):
                    return e is holder or (isinstance(e, ast.Name) and e.id in names) or norm(fully_expanded(e, fn)) == norm(fully_expanded(holder, fn))
                rest_used = f == "divmod" or any(
                    isinstance(b, ast.BinOp) and ((isinstance(b.op, ast.Sub) and is_trunc(b.right)
                                                   and norm(fully_expanded(b.left, fn)) == t)
                                                  or (isinstance(b.op, ast.Mod) and norm(fully_expanded(b.left, fn)) == t))
                    for b in ast.walk(fn))
                # (b) the count only places values: it reaches nothing but the periods of a label shift
                def shift_count(u):
                    par = getattr(u, "_parent", None)
                    if isinstance(par, ast.keyword) and par.arg == "periods":
                        par = getattr(par, "_parent", None)
                        return isinstance(par, ast.Call) and isinstance(par.func, ast.Attribute) and par.func.attr == "shift"
                    return isinstance(par, ast.Call) and isinstance(par.func, ast.Attribute) and par.func.attr == "shift" \
                        and bool(par.args) and par.args[0] is u
                uses = [u for u in ast.walk(fn) if isinstance(u, ast.Name) and u.id in names and isinstance(u.ctx, ast.Load)]
                only_shift = (bool(names) and bool(uses) and all(shift_count(u) for u in uses)) or shift_count(holder)
                if rest_used or (only_shift and q.endswith("return_shifted_hourly_quantities")):
                    if len(res.samples) < 4:
                        res.samples.append({"function": fn.name, "truncation": norm(c)[:70],
                                            "verdict": "remainder used" if rest_used else "whole-hour shift (prescribed)"})
                    continue
                res.findings.append(Finding(
                    "R-REST", f"{fn.name} :: {norm(c)[:80]}",
                    f"{fn.name} truncates a duration (`{norm(c)[:70]}`) and the part cut off is used nowhere: a request of "
                    f"400 ms counts for nothing and one of 1.5 s for 1 s, so occurrence-hours (and what is sized from them) "
                    f"fall short of occurrences x duration", pm.path_of_function(fn) if hasattr(pm, "path_of_function") else rel,
                    c.lineno, fn.name))
    res.floor = 2
    return res


# ---------------------------------------------------------------------------------------------- R-HOURNOISE
@rule("R-HOURNOISE")
def r_hournoise(E):
    pm = E.pm
    res = RuleResult("R-HOURNOISE", "in model code a whole number of hours is never taken (math.ceil / math.floor / int / //) "
                                    "straight from the float of a unit conversion or of a sum of converted durations: "
                                    "3 600 000 ms is 1.0000000000000002 h and six times ten minutes is 0.9999999999999999 h, "
                                    "so the ceiling / floor jumps by one at exact boundaries and depends on the unit the "
                                    "input was typed in; the noise is absorbed first (round(x, n), timedelta) — unless the "
                                    "part cut off is used as well (x - floor(x)), which makes the result continuous")
    from ..astutil import fully_expanded, expansions
    scanned = 0
    for mod, (rel, tree, src) in sorted(pm.modules.items()):
        if not (rel.startswith("efootprint/core") or rel.startswith("efootprint/abstract_modeling_classes")
                or rel.startswith("efootprint/builders/services") or rel.startswith("efootprint/builders/hardware")):
            continue
        for fn in [n for n in ast.walk(tree) if isinstance(n, ast.FunctionDef)]:
            scanned += 1
            for c in [x for x in ast.walk(fn) if isinstance(x, ast.Call)]:
                f = norm(c.func)
                if f not in ("math.ceil", "math.floor", "int", "np.ceil", "np.floor", "math.trunc") or not c.args:
                    continue
                # (a duration refined under a condition — `x = d.to(u.hour)`, `if n is not None: x = round(x, n)` — is read
                # once per definition: a converted duration if any of them is, absorbed only if every such one is)
                alts = [a_ for a_ in (norm(x_) for x_ in expansions(c.args[0], fn)) if _converted_duration(a_)]
                if not alts:
                    continue
                t = alts[0]
                # (floor(round(x, n)): the remainder is taken from x)
                inner = c.args[0]
                while isinstance(inner, ast.Call) and norm(inner.func) == "round" and inner.args:
                    inner = inner.args[0]
                peeled = [norm(x_) for x_ in expansions(inner, fn)] if inner is not c.args[0] else []
                res.instances += 1
                absorbed = all(_noise_absorbed(x_) for x_ in expansions(c.args[0], fn) if _converted_duration(norm(x_)))
                # continuous use: the remainder `x - floor(x)` is used in the same function
                par = getattr(c, "_parent", None)
                names = {tg.id for tg in par.targets if isinstance(tg, ast.Name)} if isinstance(par, ast.Assign) and par.value is c else set()
                rest_used = any(isinstance(b, ast.BinOp) and isinstance(b.op, ast.Sub)
                                and (b.right is c or (isinstance(b.right, ast.Name) and b.right.id in names))
                                and any(norm(x_) in alts + peeled for x_ in expansions(b.left, fn)) for b in ast.walk(fn))
                cls = getattr(fn, "_parent", None)
                q = f"{cls.name}.{fn.name}" if isinstance(cls, ast.ClassDef) else fn.name
                if rest_used and not absorbed:
                    # the values are continuous, but the *shape* is not when a remainder of 2e-16 still adds a term (one more
                    # hour in the series, which a later ceil() makes a whole instance): the remainder must be compared with
                    # a tolerance, not with 0
                    rest_names = {tg.id for b in ast.walk(fn) if isinstance(b, ast.Assign) and isinstance(b.value, ast.BinOp)
                                  and isinstance(b.value.op, ast.Sub) and (b.value.right is c or (
                                      isinstance(b.value.right, ast.Name) and b.value.right.id in names))
                                  for tg in b.targets if isinstance(tg, ast.Name)}
                    zero_tests = [t_ for t_ in ast.walk(fn) if isinstance(t_, ast.Compare) and len(t_.ops) == 1
                                  and isinstance(t_.left, ast.Name) and t_.left.id in rest_names
                                  and isinstance(t_.ops[0], (ast.Gt, ast.NotEq, ast.GtE))
                                  and isinstance(t_.comparators[0], ast.Constant) and t_.comparators[0].value == 0]
                    if zero_tests:
                        res.findings.append(Finding(
                            "R-HOURNOISE", f"{q} :: remainder of a converted duration compared with 0",
                            f"{q} splits a converted duration into `{norm(c)[:50]}` full hours plus a remainder and adds a "
                            f"term whenever the remainder is `{norm(zero_tests[0])}`: 3 600 000 ms is 1.0000000000000002 h, so "
                            f"a one-hour event typed in milliseconds gets one more hour in its series (weight 2.2e-16) than the "
                            f"same event typed in hours — and an autoscaling server rounds that hour up to a whole instance",
                            rel, zero_tests[0].lineno, q))
                        continue
                if rest_used and isinstance(cls, ast.ClassDef) and (is_static(fn) or is_classmethod(fn)):
                    # the remainder handed on in a record (`cls(full, x - full)`) whose own methods compare it with 0: each
                    # caller that asks the record that question must have had the noise absorbed on its path (the helper
                    # read with that caller's arguments)
                    for fd in _record_rest_zero_tests(pm, cls, fn, c, names):
                        res.findings.append(fd)
                if absorbed or rest_used:
                    if len(res.samples) < 5:
                        res.samples.append({"site": q, "rounding": norm(c)[:70],
                                            "verdict": "noise absorbed first" if absorbed else "remainder used (continuous)"})
                    continue
                res.findings.append(Finding(
                    "R-HOURNOISE", f"{q} :: {f} of a converted duration",
                    f"{q} takes `{norm(c)[:70]}`: the conversion (or the sum of converted terms) carries float noise, so a "
                    f"duration that is a whole number of hours lands a hair above or below it and the {f.split('.')[-1]} "
                    f"moves by one — 3 600 000 ms counts as 2 full hours where 1 hour counts as 1; six 10-minute steps add up "
                    f"to 0.9999999999999999 h and the next job is placed one hour early", rel, c.lineno, q))
    if scanned < 200:
        raise AnalysisError(f"R-HOURNOISE scanned only {scanned} functions")
    res.floor = 3
    return res


# ---------------------------------------------------------------------------------------------- R-FLATONCE
# the navigation properties that go *up* the model (from a job to the usage patterns that reach it, from a network to the
# systems it belongs to …): several paths lead to the same object, and each of these returns every object once. Confirmed
# one by one on the pinned tree (all de-duplicate the whole gathered list). Collections that go *down* and keep
# multiplicity on purpose (UsageJourney.jobs: a job listed in two steps runs twice; ServerBase.jobs: disjoint lists;
# System.all_linked_objects …) are not in the table.
FLAT_ONCE = [("Country", "systems"), ("HardwareBase", "systems"), ("InfraHardware", "systems"), ("JobBase", "usage_journeys"),
             ("JobBase", "usage_patterns"), ("JobBase", "systems"), ("Network", "systems"), ("Network", "jobs"),
             ("Storage", "jobs"), ("UsageJourney", "systems"), ("UsageJourneyStep", "usage_patterns"),
             ("UsageJourneyStep", "systems")]


def _flattenings(e):
    out = []
    for x in ast.walk(e):
        if isinstance(x, ast.Call) and norm(x.func) == "sum" and (
                any(isinstance(k.value, ast.List) for k in x.keywords if k.arg == "start")
                or (len(x.args) > 1 and isinstance(x.args[1], ast.List))):
            out.append(x)
        elif isinstance(x, ast.Call) and norm(x.func).endswith("chain.from_iterable"):
            out.append(x)
        elif isinstance(x, ast.Call) and norm(x.func).split(".")[-1] == "chain" and len(x.args) >= 2:
            out.append(x)
        elif isinstance(x, (ast.ListComp, ast.GeneratorExp)) and len(x.generators) >= 2:
            out.append(x)
    return out


@rule("R-FLATONCE")
def r_flatonce(E):
    pm = E.pm
    res = RuleResult("R-FLATONCE", "the navigation properties that gather objects *up* the model along several paths (the usage "
                                   "patterns of a job through each of its steps, the systems of a network through each usage "
                                   "pattern) de-duplicate the *whole* gathered list: paths often lead to the same object, and "
                                   "whatever is computed per element of the list would count it once per path")
    from ..astutil import straightline_value, set_parents as _sp_f
    pff = pm.package_function_finder()

    def is_dedup_call(p):
        if not isinstance(p, ast.Call):
            return False
        if norm(p.func) in ("set", "frozenset", "dict.fromkeys"):
            return True
        # a function of the package that returns its argument de-duplicated: def distinct(xs): return list(set(xs))
        f = pff(p.func.id) if isinstance(p.func, ast.Name) else None
        if f is not None and len(f.args.args) >= 1:
            rets = [r.value for r in ast.walk(f) if isinstance(r, ast.Return) and r.value is not None]
            p0 = f.args.args[0].arg
            return len(rets) == 1 and any(isinstance(c, ast.Call) and norm(c.func) in ("set", "frozenset", "dict.fromkeys")
                                          and c.args and any(isinstance(y, ast.Name) and y.id == p0 for y in ast.walk(c.args[0]))
                                          for c in ast.walk(rets[0]))
        return False

    def deduplicated(x, stop):
        p = getattr(x, "_parent", None)
        while p is not None and p is not stop:
            if is_dedup_call(p) or isinstance(p, ast.SetComp):
                return True
            p = getattr(p, "_parent", None)
        return False
    for cn, prop in FLAT_ONCE:
        owner, f = pm.find_method(cn, prop) if cn in pm.classes else (None, None)
        if f is None:
            res.undecided.append(f"{cn}.{prop} vanished")
            continue
        res.instances += 1
        # a decorator that de-duplicates what the function returns covers everything in it
        if any(pff(norm(d).split("(")[0]) is not None and any(
                isinstance(c, ast.Call) and norm(c.func) in ("set", "frozenset", "dict.fromkeys")
                for c in ast.walk(pff(norm(d).split("(")[0]))) for d in f.decorator_list):
            continue
        for r in [x for x in ast.walk(f) if isinstance(x, ast.Return) and x.value is not None]:
            fls = _flattenings(r.value)
            for fl in fls:
                if not deduplicated(fl, r):
                    res.findings.append(Finding(
                        "R-FLATONCE", f"{cn}.{prop} :: gathered without de-duplication",
                        f"{cn}.{prop} gathers `{norm(fl)[:70]}` along several paths and returns it without "
                        f"de-duplicating the whole list (a set() inside the paths does not help: two paths can lead to "
                        f"the same object): the object is listed once per path, and what is computed per element — "
                        f"occurrences per usage pattern, footprints per job — counts it several times", pm.path_of(owner),
                        r.lineno, f"{cn}.{prop}"))
                elif len(res.samples) < 4:
                    res.samples.append({"property": f"{cn}.{prop}", "gathers": norm(fl)[:70], "verdict": "de-duplicated"})
    res.breakdown = {"properties": [f"{a}.{b}" for a, b in FLAT_ONCE]}
    res.floor = 12
    return res
