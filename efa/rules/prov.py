"""Provenance rules: R-PROV (completeness of the calculation graph), R-LABEL, R-INPLACE (DESIGN §5.B)."""
from . import rule
from ..frontend import norm
from ..report import Finding, RuleResult


def _fmt(pairs):
    return sorted(f"{a}.{b}" for a, b in pairs)


@rule("R-PROV")
def r_prov(E):
    pm = E.pm
    res = RuleResult("R-PROV", "at every construction site and every write site of a calculated attribute, every "
                               "attribute whose number, emptiness, sign or dispatch value can influence the result is "
                               "a transitive recorded ancestor of it")
    seen_keys = set()
    for (c, x), cx in E.contexts().items():
        if cx is None:
            continue
        owner, fn = pm.find_method(c, "update_" + x)
        for s in cx.sites:
            if s.ctor == "EmptyExplainableObject" and not s.valdeps:
                continue
            deps = {(r[0], r[1]) for r in s.valdeps}
            if not deps:
                continue
            A = E.anc_star(s.parents)
            res.instances += len(deps)
            miss = deps - A
            if miss:
                key = f"{s.func} ctor {s.ctor} :: {norm(s.node)[:160]} misses {','.join(sorted({m[1] for m in miss}))}"
                if key in seen_keys:
                    continue
                seen_keys.add(key)
                res.findings.append(Finding(
                    "R-PROV", key,
                    f"{s.func} builds a {s.ctor} whose value depends on {_fmt(miss)} but records only "
                    f"{_fmt({(r[0], r[1]) for r in s.parents}) or 'no parent'}: editing that input does not recompute "
                    f"{c}.{x} (and whatever derives from it)", s.path, s.node.lineno, s.func,
                    {"context": f"{c}.update_{x}", "clauses": ["all"] + (["footprint"] if "footprint" in x else []) + (["infra"] if "InfraHardware" in pm.mro(c) else []) + (["usage"] if "core/usage" in pm.classes[c].path or "builders/services" in pm.classes[c].path else [])}))
        for w in cx.writes.get(x, []):
            # one obligation set per branch alternative of the written value (a parent recorded on one arm of an
            # if/else must not hide its absence on the other arm)
            alts = w.alts or ((w.parents, w.valdeps),)
            miss, deps = set(), set()
            for anc_a, deps_a in alts:
                d = {(r[0], r[1]) for r in deps_a}
                d.discard((c, x))     # the attribute is not its own ancestor (`self.X[k] += ...`)
                A = E.anc_star(anc_a)
                res.instances += len(d)
                miss |= d - A
                deps |= d
            if miss:
                key = f"{c}.update_{x} write :: {norm(w.node)[:120]} misses {','.join(sorted({m[1] for m in miss}))}"
                if key in seen_keys:
                    continue
                seen_keys.add(key)
                res.findings.append(Finding(
                    "R-PROV", key,
                    f"{c}.{x} is assigned (in {w.func}) a value that depends on {_fmt(miss)} — by value, emptiness, "
                    f"sign, loop bound or dispatch — without any of its recorded ancestors leading back to it: an "
                    f"edit of that input leaves {c}.{x} stale", w.path, w.node.lineno, w.func,
                    {"context": f"{c}.update_{x}", "recorded": _fmt({(r[0], r[1]) for r in w.parents}),
                     "clauses": ["all"] + (["footprint"] if "footprint" in x else []) + (["infra"] if "InfraHardware" in pm.mro(c) else []) + (["usage"] if "core/usage" in pm.classes[c].path or "builders/services" in pm.classes[c].path else [])}))
            elif len(res.samples) < 6 and deps:
                res.samples.append({"context": f"{c}.update_{x}", "site": norm(w.node)[:100],
                                    "dependencies": _fmt(deps)[:8],
                                    "recorded_ancestors": _fmt({(r[0], r[1]) for r in w.parents})[:8],
                                    "verdict": "every dependency is a transitive recorded ancestor"})
    res.undecided += E.unknowns()
    res.floor = 300
    return res


@rule("R-LABEL")
def r_label(E):
    pm = E.pm
    res = RuleResult("R-LABEL", "the value assigned to a calculated attribute carries a statically non-empty label "
                                "(set_label, constructor label, or a source)")
    for (c, x), cx in E.contexts().items():
        if cx is None:
            continue
        for w in cx.writes.get(x, []):
            res.instances += 1
            v = w.value
            if v is None or v.k != "E":
                res.findings.append(Finding(
                    "R-LABEL", f"{c}.update_{x} :: {norm(w.node)[:120]} not-explainable",
                    f"{c}.{x} is assigned a value that is not an explainable object", w.path, w.node.lineno, w.func))
            elif not v.label:
                res.findings.append(Finding(
                    "R-LABEL", f"{c}.update_{x} :: {norm(w.node)[:120]}",
                    f"{c}.{x} is assigned (in {w.func}) a value with no label on some path: attaching it raises "
                    f"'ExplainableObjects that are attributes of a ModelingObject should always have a label'",
                    w.path, w.node.lineno, w.func))
            elif len(res.samples) < 4:
                res.samples.append({"context": f"{c}.update_{x}", "site": norm(w.node)[:100], "verdict": "labelled"})
    res.undecided += E.unknowns()
    res.floor = 111
    return res


@rule("R-INPLACE")
def r_inplace(E):
    pm = E.pm
    res = RuleResult("R-INPLACE", "no rule calls a value-changing in-place method (EQ.ceil, EHQ.round) on a value that "
                                  "is, or shares its data with, a model attribute or a parameter")
    for (c, x), cx in E.contexts().items():
        if cx is None:
            continue
        for (node, where, name, b) in cx.inplace:
            res.instances += 1
            if b.fresh and not b.shares:
                if len(res.samples) < 3:
                    res.samples.append({"context": f"{c}.update_{x}", "site": norm(node)[:100],
                                        "verdict": "receiver is a fresh intermediate"})
                continue
            if name == "ceil" and b.ek and not (b.ek & {"EQ", "?"}):
                if len(res.samples) < 3:
                    res.samples.append({"context": f"{c}.update_{x}", "site": norm(node)[:100],
                                        "verdict": f"receiver kinds {sorted(b.ek)}: ceil returns a new object"})
                continue
            if name == "ceil" and (not b.ek or "?" in b.ek) and "EQ" not in b.ek:
                res.undecided.append(f"{where[1]}: receiver kind of {norm(node)[:80]} unknown")
                continue
            if True:
                res.findings.append(Finding(
                    "R-INPLACE", f"{where[1]} :: {norm(node)[:140]}",
                    f"{where[1]} calls .{name}() — which rounds its receiver in place — on a value that is or shares "
                    f"data with model attribute(s) {sorted(r[0] + '.' + r[1] for r in (b.shares or b.anc))}: computing "
                    f"{c}.{x} alters it", where[0], node.lineno, where[1], {"context": f"{c}.update_{x}"}))
    # in-place unit conversions: `x.to(unit)` (and the operators that convert an argument: return_shifted_hourly_quantities
    # converts its duration to hours) rewrite the object they are given; on an *input* of the model the user's value changes
    # unit under their eyes and — floats being what they are — 10 min + 40 min + 10 min is 1.0 h while
    # 0.1666… h + 40 min + 10 min is 0.9999999999999999 h: what a rule computes then depends on which rule ran before it
    seen = set()
    for (c, x), cx in E.contexts().items():
        if cx is None:
            continue
        for (node, where, name, b) in cx.unitconv:
            res.instances += 1
            if b.fresh and not b.shares:
                continue
            # an object converting its *own* input (Storage.data_storage_duration -> hours) does so at a fixed point of its
            # own rule sequence; an input of another object is shared by all the objects that read it (every job of a
            # journey reads the steps' user_time_spent), and whichever is computed first rewrites it for the others
            inputs = sorted({f"{r[0]}.{r[1]}" for r in (b.shares or ()) if r[0] in pm.ALL and not E.is_calc(r[0], r[1])
                             and not r[2]})
            if not inputs:
                continue
            key = f"{where[1]} :: {norm(node)[:120]} converts an input"
            if key in seen:
                continue
            seen.add(key)
            res.findings.append(Finding(
                "R-INPLACE", key,
                f"{where[1]} converts {inputs} to another unit in place ({'.to()' if name == 'to' else 'through .' + name + '()'}): "
                f"an input of another object is rewritten while {c}.{x} is computed, and sums that involve it round "
                f"differently afterwards (10 min + 40 min + 10 min = 1.0 h, 0.1666… h + 40 min + 10 min = "
                f"0.9999999999999999 h), so what the other readers of that input compute depends on which of them ran first", where[0], node.lineno, where[1],
                {"context": f"{c}.update_{x}"}))
    res.undecided += E.unknowns()
    res.floor = 3
    return res


@rule("R-PARENT-USED")
def r_parent_used(E):
    pm = E.pm
    res = RuleResult("R-PARENT-USED", "at every explicit constructor site of a rule, each recorded parent is something the "
                                      "value is actually computed from (by data, or by the branch / dispatch that selected "
                                      "it): a parent that is recorded but not used means the formula shown — and the rule "
                                      "the builder states — is not the one that is computed")
    seen = set()
    for (c, x), cx in E.contexts().items():
        if cx is None:
            continue
        for s in cx.sites:
            if s.ctor == "EmptyExplainableObject" or not s.parents:
                continue
            key0 = (s.func, getattr(s.node, "lineno", 0), c)
            if key0 in seen:
                continue
            seen.add(key0)
            used = {(r[0], r[1]) for r in s.valdeps} | {(r[0], r[1]) for r in s.ctl}
            usedA = E.anc_star(used) | used
            for p in sorted({(r[0], r[1]) for r in s.parents}):
                res.instances += 1
                if p not in usedA:
                    res.findings.append(Finding(
                        "R-PARENT-USED", f"{s.func} ctor {s.ctor} records unused {p[1]}",
                        f"{s.func} records {p[0]}.{p[1]} as parent of the {s.ctor} it builds, but the value is computed "
                        f"from {sorted(f'{a}.{b}' for a, b in used) or 'constants'} only: either the dependency was lost "
                        f"from the computation (a lookup that ignores one of its keys) or the explanation is wrong",
                        s.path, s.node.lineno, s.func, {"context": f"{c}.update_{x}"}))
                elif len(res.samples) < 4:
                    res.samples.append({"site": s.func, "parent": f"{p[0]}.{p[1]}", "verdict": "used by the value"})
    res.undecided += E.unknowns()
    res.floor = 30
    return res
