"""Aggregation, persistence and validation tables: R-AGG, R-JSON-*, R-VAL-* (DESIGN §5.F)."""
import ast

from . import rule
from ..frontend import AnalysisError, norm, is_property, is_abstract
from ..report import Finding, RuleResult
from ..interp import Cx

SYS = "core/system.py"
MO = "abstract_modeling_classes/modeling_object.py"
MU = "abstract_modeling_classes/modeling_update.py"
J2S = "api_utils/json_to_system.py"
EO = "abstract_modeling_classes/explainable_objects.py"
EB = "abstract_modeling_classes/explainable_object_base_class.py"

CATEGORY_DICTS = ["fabrication_footprints", "energy_footprints", "total_fabrication_footprints", "total_energy_footprints"]
FOOTPRINT_ATTR = {"fabrication_footprints": "instances_fabrication_footprint", "energy_footprints": "energy_footprint",
                  "total_fabrication_footprints": "instances_fabrication_footprint",
                  "total_energy_footprints": "energy_footprint"}


def _dict_literal(fn):
    for n in ast.walk(fn):
        if isinstance(n, ast.Dict) and n.keys and all(isinstance(k, ast.Constant) and isinstance(k.value, str) for k in n.keys):
            if len(n.keys) >= 3:
                return n
    return None


def _dict_from_table(pm, cname, fn):
    """the dict literal that a loop / dict comprehension over a class-level table of constants builds:
    `for cat, attr in self.TABLE: d[cat] = <expr(cat, attr)>` (with `if cat == "X": … else: …` decided per row) or
    `{cat: <expr> for cat, attr in self.TABLE}`; helper calls `self.h(consts…)` with a single return are read as that
    return expression. None if fn is not of that form."""
    from ..astutil import substitute, inline_call_expr, fold_static, clone, set_parents

    def table_rows(it):
        if isinstance(it, (ast.Tuple, ast.List)):
            t = it                     # (the canonical model puts a literal constant table where it is used)
        elif isinstance(it, ast.Attribute) and norm(it.value) in ("self", "cls", cname):
            kc, t = pm._class_const(cname, it.attr)
        elif isinstance(it, ast.Name):
            t = None
            for m, (r, tree, _) in pm.modules.items():
                for st in tree.body:
                    if isinstance(st, ast.Assign) and isinstance(st.targets[0], ast.Name) and st.targets[0].id == it.id:
                        t = st.value
        else:
            t = None
        if not isinstance(t, (ast.Tuple, ast.List)):
            return None
        rows = []
        for r in t.elts:
            if isinstance(r, (ast.Tuple, ast.List)) and all(isinstance(x, ast.Constant) for x in r.elts):
                rows.append(list(r.elts))
            elif isinstance(r, ast.Constant):
                rows.append([r])
            else:
                return None
        return rows

    def bind(target, row):
        names = [target] if isinstance(target, ast.Name) else (list(target.elts) if isinstance(target, ast.Tuple) else None)
        if names is None or len(names) != len(row) or not all(isinstance(n, ast.Name) for n in names):
            return None
        return {n.id: c for n, c in zip(names, row)}

    def resolve(v, m):
        v = substitute(v, m)
        for _ in range(2):
            if isinstance(v, ast.Call):
                inl = inline_call_expr(v, pm.helper_finder(cname))
                if inl is not None:
                    v = inl
        holder = ast.Expr(value=v)
        fold_static(holder)
        return holder.value

    def const_test(t, m):
        t = substitute(t, m)
        if isinstance(t, ast.Compare) and len(t.ops) == 1 and isinstance(t.left, ast.Constant) \
                and isinstance(t.comparators[0], ast.Constant):
            eq = t.left.value == t.comparators[0].value
            if isinstance(t.ops[0], ast.Eq):
                return eq
            if isinstance(t.ops[0], ast.NotEq):
                return not eq
            if isinstance(t.ops[0], (ast.Is, ast.IsNot)) and (t.left.value is None or t.comparators[0].value is None):
                same = t.left.value is None and t.comparators[0].value is None
                return same if isinstance(t.ops[0], ast.Is) else not same
        if isinstance(t, ast.Compare) and len(t.ops) == 1 and isinstance(t.left, ast.Constant) \
                and isinstance(t.ops[0], (ast.In, ast.NotIn)) and isinstance(t.comparators[0], (ast.Tuple, ast.List, ast.Set)) \
                and all(isinstance(x, ast.Constant) for x in t.comparators[0].elts):
            r = t.left.value in [x.value for x in t.comparators[0].elts]
            return r if isinstance(t.ops[0], ast.In) else not r
        return None
    keys, values = [], []
    for n in ast.walk(fn):
        if isinstance(n, ast.DictComp) and len(n.generators) == 1 and not n.generators[0].ifs:
            rows = table_rows(n.generators[0].iter)
            if rows is None:
                continue
            for row in rows:
                m = bind(n.generators[0].target, row)
                if m is None:
                    return None
                k = substitute(n.key, m)
                if not isinstance(k, ast.Constant):
                    return None
                keys.append(k)
                values.append(resolve(n.value, m))
            break
        if isinstance(n, ast.For):
            rows = table_rows(n.iter)
            if rows is None:
                continue

            def stores(stmts, m):
                out = []
                for st in stmts:
                    if isinstance(st, ast.If):
                        c = const_test(st.test, m)
                        if c is None:
                            return None
                        sub = stores(st.body if c else st.orelse, m)
                        if sub is None:
                            return None
                        out += sub
                    elif isinstance(st, ast.Assign) and isinstance(st.targets[0], ast.Subscript):
                        k = substitute(st.targets[0].slice, m)
                        if not isinstance(k, ast.Constant):
                            return None
                        out.append((k, resolve(st.value, m)))
                    else:
                        return None
                return out
            for row in rows:
                m = bind(n.target, row)
                if m is None:
                    return None
                got = stores(n.body, m)
                if got is None:
                    return None
                for k, v in got:
                    keys.append(k)
                    values.append(v)
            break
    if len(keys) < 3:
        return None
    d = ast.Dict(keys=keys, values=values)
    ast.copy_location(d, fn)
    return set_parents(d)


def _entry(expr):
    """category value expression -> (collection text, attribute, dedup: 'by-id' | 'none' | 'n/a')"""
    if isinstance(expr, ast.DictComp):
        g = expr.generators[0]
        attr = expr.value.attr if isinstance(expr.value, ast.Attribute) else None
        keyed = norm(expr.key).endswith(".id")
        return norm(g.iter), attr, "by-id" if keyed else "none"
    for n in ast.walk(expr):
        if isinstance(n, ast.Call) and isinstance(n.func, ast.Name) and n.func.id == "sum" and n.args:
            a = n.args[0]
            if isinstance(a, (ast.ListComp, ast.GeneratorExp)):
                g = a.generators[0]
                attr = a.elt.attr if isinstance(a.elt, ast.Attribute) else None
                it = g.iter
                dedup = "none"
                if isinstance(it, ast.Call) and isinstance(it.func, ast.Name) and it.func.id == "set":
                    dedup = "set"
                    it = it.args[0]
                return norm(it), attr, dedup
    return None, None, "n/a"


def _set_derived(E, prop):
    """is the System collection property built through a set (so each object occurs once)?"""
    pm = E.pm
    owner, fn = pm.find_method("System", prop)
    if fn is None:
        return None      # not a property: a raw link
    seen = set()

    def check(f):
        if f.name in seen:
            return False
        seen.add(f.name)
        t = norm(f)
        if "set(" in t and ("list(" in t or "output_set" in t):
            return True
        for n in ast.walk(f):
            if isinstance(n, ast.Call) and isinstance(n.func, ast.Attribute) and isinstance(n.func.value, ast.Name) \
                    and n.func.value.id in ("self", "cls", "System"):
                o, g = pm.find_method("System", n.func.attr)
                if g is not None and check(g):
                    return True
            if isinstance(n, ast.Call) and isinstance(n.func, ast.Name):
                # a module-level helper of the package (`unique(<collections>)`): set-built there
                g = pm.package_function_finder()(n.func.id)
                if g is not None and check(g):
                    return True
        return False
    return check(fn)


@rule("R-AGG")
def r_agg(E):
    pm = E.pm
    res = RuleResult("R-AGG", "the four category dictionaries of System agree: same category keys (KEYS), same "
                              "collection / attribute / deduplication per category (SIB), every collection holds each "
                              "object once (ONCE), every footprint-bearing public class is covered (COVER)")
    rel, _ = pm.module_tree(SYS)
    views = {}
    for d in CATEGORY_DICTS:
        owner, fn = pm.find_method("System", d)
        if fn is None:
            raise AnalysisError(f"System.{d} vanished")
        lit = _dict_literal(fn)
        if lit is None:
            lit = _dict_from_table(pm, "System", fn)
        if lit is None:
            res.undecided.append(f"System.{d}: no literal category dict")
            continue
        views[d] = ({k.value: _entry(v) for k, v in zip(lit.keys, lit.values)}, fn)
    # KEYS
    keysets = {d: set(v[0]) for d, v in views.items()}
    ref = keysets.get("fabrication_footprints", set())
    for d, ks in keysets.items():
        res.instances += 1
        if ks != ref:
            res.findings.append(Finding(
                "R-AGG", f"KEYS System.{d}",
                f"System.{d} has categories {sorted(ks)} but fabrication_footprints has {sorted(ref)}: "
                f"update_total_footprint indexes the energy dict with the fabrication dict's keys, so a category "
                f"present on one side only is silently left out of (or breaks) the total", rel, views[d][1].lineno,
                f"System.{d}"))
    # update_total_footprint iterates one dict's keys over both
    owner, utf = pm.find_method("System", "update_total_footprint")
    res.instances += 1
    from ..astutil import expanded
    DICTS = ("fabrication_footprints", "energy_footprints")

    def which(e):
        e = expanded(e, utf)
        return e.attr if isinstance(e, ast.Attribute) and e.attr in DICTS else None
    # variables ranging over the categories of one of the two dicts: `for k in D` / `D.keys()` / `for k, v in D.items()`
    keyvars, visited = set(), set()
    for n in ast.walk(utf):
        if isinstance(n, (ast.For, ast.comprehension)):
            it = n.iter
            meth = it.func.attr if isinstance(it, ast.Call) and isinstance(it.func, ast.Attribute) else None
            base = it.func.value if meth in ("keys", "items", "values") else it
            d = which(base)
            if d is None:
                continue
            if meth == "items" and isinstance(n.target, ast.Tuple) and len(n.target.elts) == 2:
                keyvars.add(norm(n.target.elts[0]))
                visited.add(d)
            elif meth == "values":
                visited.add(d)
            else:
                keyvars.add(norm(n.target))
    for n in ast.walk(utf):
        if isinstance(n, ast.Subscript) and which(n.value) and norm(n.slice) in keyvars:
            visited.add(which(n.value))
    # … and sums them all: an entry filtered out (because it is empty now) is not a parent of the total, so the total
    # is not recomputed when a later value edit gives that component a footprint
    res.instances += 1
    filt = [g for n in ast.walk(utf) if isinstance(n, (ast.ListComp, ast.GeneratorExp, ast.SetComp)) for g in n.generators if g.ifs]
    cond_acc = [n for n in ast.walk(utf) if isinstance(n, ast.If) and any(
        isinstance(x, ast.AugAssign) or (isinstance(x, ast.Call) and isinstance(x.func, ast.Attribute)
                                        and x.func.attr in ("append", "extend")) for x in ast.walk(n))
        and any(isinstance(l, (ast.For, ast.While)) and any(y is n for y in ast.walk(l)) for l in ast.walk(utf))]
    if filt or cond_acc:
        t = filt[0].ifs[0] if filt else cond_acc[0].test
        res.findings.append(Finding(
            "R-AGG", "FILTER System.update_total_footprint",
            f"update_total_footprint leaves some entries out of the sum (`{norm(t)[:70]}`): the operands of the sum are "
            f"the recorded parents of the total, so a component whose footprint is empty (or filtered out) when the total "
            f"is computed is no ancestor of it, and a later value edit that gives it a footprint does not recompute the "
            f"total", rel, t.lineno, "System.update_total_footprint"))
    # … entry by entry: pairing the entries of the two dictionaries by position (zip of their values) is only the same
    # thing when, in every category, both dictionaries are built over the same collection
    res.instances += 1
    for z in [n for n in ast.walk(utf) if isinstance(n, ast.Call) and isinstance(n.func, ast.Name)
              and n.func.id in ("zip", "zip_longest") and len(n.args) >= 2]:
        sides = set()
        for a in z.args:
            for x in ast.walk(expanded(a, utf)):
                if isinstance(x, (ast.Attribute, ast.Name)):
                    w = which(x)
                    if w:
                        sides.add(w)
        if sides != set(DICTS):
            continue
        visited |= sides
        fabv, env_ = views.get("fabrication_footprints"), views.get("energy_footprints")
        differing = [cat for cat in sorted(ref) if fabv and env_ and
                     (fabv[0].get(cat) or (None,))[0] != (env_[0].get(cat) or (None,))[0]]
        if differing:
            res.findings.append(Finding(
                "R-AGG", "PAIR System.update_total_footprint",
                f"update_total_footprint pairs the entries of fabrication_footprints and energy_footprints by position "
                f"(`{norm(z)[:70]}`), but in {differing} the two dictionaries are not built over the same collection: zip "
                f"stops at the shorter one and the remaining objects' footprints are left out of the total", rel, z.lineno,
                "System.update_total_footprint"))
    if visited != set(DICTS):
        res.findings.append(Finding("R-AGG", "KEYS System.update_total_footprint",
                                    "update_total_footprint no longer sums both the fabrication and the energy entry of "
                                    "each category", rel, utf.lineno, "System.update_total_footprint"))
    # SIB / ONCE per category
    cats = sorted(ref)
    for cat in cats:
        rows = {d: views[d][0].get(cat) for d in views}
        colls = {}
        for d, row in rows.items():
            if row is None or row[0] is None:
                continue
            res.instances += 1
            coll, attr, dedup = row
            if attr != FOOTPRINT_ATTR[d]:
                res.findings.append(Finding(
                    "R-AGG", f"SIB {cat} System.{d} attribute",
                    f"System.{d}['{cat}'] reads .{attr}; the {d.replace('total_', '')} view of every category reads "
                    f".{FOOTPRINT_ATTR[d]}", rel, views[d][1].lineno, f"System.{d}"))
            prop = coll[5:] if coll.startswith("self.") else coll
            sd = _set_derived(E, prop)
            once = dedup in ("by-id", "set") or bool(sd)
            colls[d] = (coll, once, dedup, sd)
        if len({c[0] for c in colls.values()}) > 1:
            res.findings.append(Finding(
                "R-AGG", f"SIB {cat} collections",
                f"category '{cat}' is summed over different collections in different views: "
                f"{ {d: c[0] for d, c in colls.items()} }", rel, 0, "System"))
        onces = {d: c[1] for d, c in colls.items()}
        if colls and len(set(onces.values())) > 1:
            dup = sorted(d for d, o in onces.items() if not o)
            ok = sorted(d for d, o in onces.items() if o)
            res.findings.append(Finding(
                "R-AGG", f"SIB/ONCE {cat}",
                f"category '{cat}': {ok} count each object once (keyed by id) but {dup} sum the raw list "
                f"{colls[dup[0]][0]}, which accepts duplicates: after `system.usage_patterns.append(up)` for an "
                f"already listed pattern the hourly total and the per-category sums disagree", rel,
                views[dup[0]][1].lineno, f"System.{dup[0]}"))
        elif colls and not any(onces.values()):
            res.findings.append(Finding(
                "R-AGG", f"ONCE {cat}", f"category '{cat}' sums a collection that may hold an object twice in every view",
                rel, 0, "System"))
        if len(res.samples) < 4 and colls:
            res.samples.append({"category": cat, "views": {d: {"collection": c[0], "once": c[1]} for d, c in colls.items()}})
    # COVER
    for d in ("energy_footprints", "fabrication_footprints"):
        attr = FOOTPRINT_ATTR[d]
        covered = set()
        for cat, row in views.get(d, ({}, None))[0].items():
            if row[0] is None:
                continue
            prop = row[0][5:] if row[0].startswith("self.") else None
            if prop is None:
                continue
            owner, f = pm.find_method("System", prop)
            if f is not None:
                out, cx = E.I.run_method("System", prop, Cx("System", prop))
                res.undecided += [f"System.{prop}: {u}" for u in cx.unknown]
                if out.elem is not None:
                    covered |= set(out.elem.cls)
            else:
                covered |= set(pm.link_targets("System", prop))
        for c in pm.ALL:
            if attr in pm.calc(c):
                res.instances += 1
                if c not in covered:
                    if d == "fabrication_footprints" and c == "Network":
                        continue
                    if d not in views:
                        continue      # (the view itself is undecided: reported above)
                    res.findings.append(Finding(
                        "R-AGG", f"COVER {c}.{attr}",
                        f"{c} computes {attr} but no category of System.{d} iterates a collection that can contain a {c}: "
                        f"its footprint is missing from the system total", rel, views[d][1].lineno, f"System.{d}"))
    res.breakdown = {"categories": cats}
    res.floor = 21
    return res


# ---------------------------------------------------------------------------------------------- JSON
def _writer_paths(fn, find_method=None, _depth=3, super_method=None):
    """paths through a to_json writer: list of dict(keys, none_keys, conds); `d.update({...})`, `d |= {...}`,
    `d = {...} | self.<helper>(...)`, `d.update(self.<helper>(...))` add the literal's keys / the keys of each path through
    the helper (resolved for the class written: an overridden hook is the override); a helper's `return {...}` ends its
    path with those keys; `return super().<same method>(...)` continues in the inherited method (super_method(fn))"""
    paths = [dict(keys=set(), none=set(), conds=[], done=False)]

    def merged(paths, extra):
        return [p if p["done"] else dict(keys=p["keys"] | q["keys"], none=p["none"] | q["none"], conds=p["conds"] + q["conds"],
                                          done=False)
                for p in paths for q in (extra if not p["done"] else [None])]

    def helper_paths(call):
        """paths of `self.<helper>(…)` / `super().<this method>(…)`, or None"""
        if not (isinstance(call, ast.Call) and isinstance(call.func, ast.Attribute)) or _depth <= 0:
            return None
        recv = call.func.value
        if isinstance(recv, ast.Name) and recv.id == "self" and find_method is not None and call.func.attr != "update":
            h = find_method(call.func.attr)
            if h is not None and h is not fn and h.name != fn.name:
                return _writer_paths(h, find_method, _depth - 1, super_method)
        if isinstance(recv, ast.Call) and isinstance(recv.func, ast.Name) and recv.func.id == "super" \
                and super_method is not None:
            h = super_method(fn, call.func.attr)
            if h is not None and h is not fn:
                return _writer_paths(h, find_method, _depth - 1, super_method)
        return None

    def dict_parts(e):
        """`A | B | …` with every part a dict literal or a helper call: list of parts, else None"""
        if isinstance(e, ast.BinOp) and isinstance(e.op, ast.BitOr):
            l, r = dict_parts(e.left), dict_parts(e.right)
            return None if l is None or r is None else l + r
        if isinstance(e, ast.Dict) or helper_paths(e) is not None:
            return [e]
        return None

    def add_parts(paths, parts):
        for x in parts:
            if isinstance(x, ast.Dict):
                for p in paths:
                    if p["done"]:
                        continue
                    for k, v in zip(x.keys, x.values):
                        if isinstance(k, ast.Constant):
                            p["keys"].add(k.value)
                            if isinstance(v, ast.Constant) and v.value is None:
                                p["none"].add(k.value)
            else:
                paths = merged(paths, helper_paths(x))
        return paths

    def run(stmts, paths):
        for s in stmts:
            upd = s.value if isinstance(s, ast.Expr) and isinstance(s.value, ast.Call) and isinstance(
                s.value.func, ast.Attribute) and s.value.func.attr == "update" and len(s.value.args) == 1 else None
            if upd is not None:
                x = upd.args[0]
                if isinstance(x, ast.Dict):
                    for p in paths:
                        if not p["done"]:
                            p["keys"] |= {k.value for k in x.keys if isinstance(k, ast.Constant)}
                elif helper_paths(x) is not None:
                    paths = merged(paths, helper_paths(x))
                continue
            if isinstance(s, ast.AugAssign) and isinstance(s.op, ast.BitOr) and dict_parts(s.value) is not None:
                paths = add_parts(paths, dict_parts(s.value))
                continue
            if isinstance(s, ast.Return) and s.value is not None and dict_parts(s.value) is not None:
                paths = add_parts(paths, dict_parts(s.value))
                for p in paths:
                    p["done"] = True
                continue
            if isinstance(s, ast.Assign) and isinstance(s.targets[0], ast.Name) and isinstance(s.value, ast.BinOp) \
                    and dict_parts(s.value) is not None:
                paths = add_parts(paths, dict_parts(s.value))
                continue
            # the dict handed to a same-class helper that completes it: `return self.h(d, …)`, `self.h(d, …)`, `d = self.h(d, …)`
            hc = s.value if isinstance(s, (ast.Return, ast.Expr, ast.Assign)) and isinstance(getattr(s, "value", None), ast.Call) else None
            if hc is not None and isinstance(hc.func, ast.Attribute) and isinstance(hc.func.value, ast.Name) \
                    and hc.func.value.id == "self" and any(isinstance(a_, ast.Name) for a_ in hc.args) \
                    and find_method is not None and _depth > 0 and hc.func.attr != "update":
                h = find_method(hc.func.attr)
                if h is not None and h.name != fn.name:
                    paths = merged(paths, _writer_paths(h, find_method, _depth - 1, super_method))
                    continue
            if isinstance(s, ast.Assign) and isinstance(s.value, ast.Dict) and isinstance(s.targets[0], ast.Name):
                for p in paths:
                    if p["done"]:
                        continue
                    for k, v in zip(s.value.keys, s.value.values):
                        if isinstance(k, ast.Constant):
                            p["keys"].add(k.value)
                            if isinstance(v, ast.Constant) and v.value is None:
                                p["none"].add(k.value)
            elif isinstance(s, ast.Assign) and isinstance(s.targets[0], ast.Subscript) \
                    and isinstance(s.targets[0].slice, ast.Constant):
                for p in paths:
                    if not p["done"]:
                        p["keys"].add(s.targets[0].slice.value)
            elif isinstance(s, ast.If):
                live = [p for p in paths if not p["done"]]
                dead = [p for p in paths if p["done"]]
                a = [dict(keys=set(p["keys"]), none=set(p["none"]), conds=p["conds"] + [norm(s.test)[:50]], done=False) for p in live]
                b = [dict(keys=set(p["keys"]), none=set(p["none"]), conds=p["conds"] + ["not " + norm(s.test)[:46]], done=False)
                     for p in live]
                a = run(s.body, a)
                b = run(s.orelse, b)
                paths = dead + a + b
        return paths
    out = run(fn.body, paths)
    return out


class _KeyErr(Exception):
    pass


def _eval_reader_test(t, p):
    """concrete truth value of a reader test for a writer path p (which keys it emitted, which of them are None);
    evaluation order and short-circuiting as in Python; subscripting a key that was not emitted raises _KeyErr"""
    if isinstance(t, ast.BoolOp) and isinstance(t.op, ast.And):
        for v in t.values:
            if not _eval_reader_test(v, p):
                return False
        return True
    if isinstance(t, ast.BoolOp) and isinstance(t.op, ast.Or):
        for v in t.values:
            if _eval_reader_test(v, p):
                return True
        return False
    if isinstance(t, ast.UnaryOp) and isinstance(t.op, ast.Not):
        return not _eval_reader_test(t.operand, p)
    if isinstance(t, ast.Compare) and len(t.ops) == 1:
        if isinstance(t.ops[0], (ast.In, ast.NotIn)) and isinstance(t.left, ast.Constant):
            r = t.left.value in p["keys"]
            return r if isinstance(t.ops[0], ast.In) else not r
        if isinstance(t.ops[0], (ast.Is, ast.IsNot)) and isinstance(t.left, ast.Subscript) \
                and isinstance(t.left.slice, ast.Constant) and isinstance(t.comparators[0], ast.Constant) \
                and t.comparators[0].value is None:
            k = t.left.slice.value
            if k not in p["keys"]:
                raise _KeyErr(k)
            r = k in p["none"]
            return r if isinstance(t.ops[0], ast.Is) else not r
    raise AnalysisError(f"json reader test not understood: {norm(t)[:80]}")


def _select_reader_path(paths, p, reader=None):
    """the path of the reader that a dict with p's keys takes: (path, None) or (None, problem text)"""
    from ..astutil import fully_expanded
    for path in paths:
        taken = True
        for test, pol in path.conds:
            try:
                # (a test hoisted into a local — has_unit = "unit" in d — reads as the test itself)
                r = _eval_reader_test(fully_expanded(test, reader) if reader is not None else test, p)
            except _KeyErr as e:
                return None, f"the reader's test `{norm(test)[:60]}` subscripts ['{e.args[0]}'], which this path did not emit"
            if r != pol:
                taken = False
                break
        if taken:
            return path, None
    return None, "no path of json_to_explainable_object matches"


def _first_match_as_loop(reader):
    """`b = next((B for <cols> in TABLE if C), None)` followed by `return b(args) if b is not None else None` (or by
    `if b is None: return None` and `return b(args)`) reads as the loop it abbreviates:
        for <cols> in TABLE:
            if C: return B(args)
        return None
    (a copy of the reader; the reader itself when it has no such selection)"""
    from ..astutil import clone, substitute, set_parents
    body = reader.body
    for i, st in enumerate(body):
        if not (isinstance(st, ast.Assign) and len(st.targets) == 1 and isinstance(st.targets[0], ast.Name)
                and isinstance(st.value, ast.Call) and isinstance(st.value.func, ast.Name) and st.value.func.id == "next"
                and len(st.value.args) == 2 and isinstance(st.value.args[1], ast.Constant) and st.value.args[1].value is None
                and isinstance(st.value.args[0], ast.GeneratorExp) and len(st.value.args[0].generators) == 1):
            continue
        x = st.targets[0].id
        gen = st.value.args[0]
        g = gen.generators[0]
        if not (isinstance(g.iter, ast.Name) and isinstance(g.target, ast.Tuple)) or i + 1 >= len(body):
            continue
        nxt, use = body[i + 1], None
        rest = body[i + 2:]
        if isinstance(nxt, ast.Return) and isinstance(nxt.value, ast.IfExp):
            t = nxt.value.test
            if isinstance(t, ast.Compare) and len(t.ops) == 1 and norm(t.left) == x and isinstance(t.comparators[0], ast.Constant) \
                    and t.comparators[0].value is None:
                a, b = (nxt.value.body, nxt.value.orelse) if isinstance(t.ops[0], ast.IsNot) else (nxt.value.orelse, nxt.value.body)
                if isinstance(b, ast.Constant) and b.value is None:
                    use = a
        elif isinstance(nxt, ast.If) and not nxt.orelse and len(nxt.body) == 1 and isinstance(nxt.body[0], ast.Return) \
                and (nxt.body[0].value is None or (isinstance(nxt.body[0].value, ast.Constant) and nxt.body[0].value.value is None)) \
                and isinstance(nxt.test, ast.Compare) and len(nxt.test.ops) == 1 and isinstance(nxt.test.ops[0], ast.Is) \
                and norm(nxt.test.left) == x and rest and isinstance(rest[0], ast.Return) and rest[0].value is not None:
            use, rest = rest[0].value, rest[1:]
        if use is None or any(isinstance(n_, ast.Name) and n_.id == x for r_ in rest for n_ in ast.walk(r_)):
            continue
        test = g.ifs[0] if len(g.ifs) == 1 else (ast.BoolOp(op=ast.And(), values=list(g.ifs)) if g.ifs else ast.Constant(value=True))
        ret = ast.Return(value=substitute(use, {x: gen.elt}))
        loop = ast.For(target=clone(g.target), iter=clone(g.iter), body=[ast.If(test=clone(test), body=[ret], orelse=[])],
                       orelse=[], type_comment=None)
        view = clone(reader)
        view.body = [clone(b_) for b_ in body[:i]] + [loop, ast.Return(value=ast.Constant(value=None))]
        for n_ in ast.walk(view):
            if isinstance(n_, (ast.expr, ast.stmt)) and not hasattr(n_, "lineno"):
                ast.copy_location(n_, st)
        ast.fix_missing_locations(view)
        view._parent = getattr(reader, "_parent", None)
        return set_parents(view)
    return reader


def _table_reader_paths(pm, rel, reader):
    """the reader written as a table: `for predicate, read in TABLE: if predicate(d): return read(d, …)` with TABLE a
    module-level list of (lambda d: <test>, <reader function>) pairs. One path per entry: the earlier predicates false,
    this one true, then the body of its reader function (its first parameter read as the dict). None if the reader is not
    of that form."""
    from ..paths import Path
    from ..astutil import substitute, substitute_stmt
    tree = next((t for m, (r, t, _) in pm.modules.items() if r == rel), None)
    dparam = reader.args.args[0].arg if reader.args.args else "input_dict"
    reader = _first_match_as_loop(reader)
    loop = next((n for n in ast.walk(reader) if isinstance(n, ast.For) and isinstance(n.iter, ast.Name)
                 and isinstance(n.target, ast.Tuple) and len(n.target.elts) >= 2), None)
    if loop is None or tree is None:
        return None
    table = next((n.value for n in tree.body if isinstance(n, ast.Assign) and len(n.targets) == 1
                  and isinstance(n.targets[0], ast.Name) and n.targets[0].id == loop.iter.id), None)
    if not isinstance(table, (ast.List, ast.Tuple)):
        return None
    finder = pm.function_finder(rel)

    def single_return(f):
        body = [b for b in f.body if not (isinstance(b, ast.Expr) and isinstance(b.value, ast.Constant))]
        return body[0].value if len(body) == 1 and isinstance(body[0], ast.Return) and body[0].value is not None else None

    def unroll_all_any(t):
        """all(<elt> for x in (c1, c2)) over a literal tuple of constants -> <elt[c1]> and <elt[c2]> (any: or)"""
        class T(ast.NodeTransformer):
            def visit_Call(self, node):
                self.generic_visit(node)
                if isinstance(node.func, ast.Name) and node.func.id in ("all", "any") and len(node.args) == 1 \
                        and isinstance(node.args[0], (ast.GeneratorExp, ast.ListComp)) and len(node.args[0].generators) == 1:
                    g = node.args[0].generators[0]
                    if isinstance(g.iter, (ast.Tuple, ast.List)) and not g.ifs and isinstance(g.target, ast.Name) \
                            and all(isinstance(x, ast.Constant) for x in g.iter.elts) and g.iter.elts:
                        vals = [substitute(node.args[0].elt, {g.target.id: c}) for c in g.iter.elts]
                        if len(vals) == 1:
                            return vals[0]
                        return ast.copy_location(ast.BoolOp(op=ast.And() if node.func.id == "all" else ast.Or(), values=vals), node)
                return node
        return T().visit(t)

    def pred_test(pe, d):
        """the test a predicate of the table applies to the dict d, as an expression over d; None if not understood"""
        if isinstance(pe, ast.Lambda) and len(pe.args.args) == 1:
            return substitute(pe.body, {pe.args.args[0].arg: d})
        if isinstance(pe, ast.Name):
            f = finder(pe.id)
            r = single_return(f) if f is not None and len(f.args.args) == 1 else None
            return substitute(r, {f.args.args[0].arg: d}) if r is not None else None
        if isinstance(pe, ast.Call) and isinstance(pe.func, ast.Name) and not pe.keywords:
            # a predicate factory: def has_all_keys(*keys): def predicate(d): return <expr>; return predicate
            f = finder(pe.func.id)
            if f is None:
                return None
            body = [b for b in f.body if not (isinstance(b, ast.Expr) and isinstance(b.value, ast.Constant))]
            if not (len(body) == 2 and isinstance(body[0], ast.FunctionDef) and isinstance(body[1], ast.Return)
                    and isinstance(body[1].value, ast.Name) and body[1].value.id == body[0].name
                    and len(body[0].args.args) == 1):
                return None
            r = single_return(body[0])
            if r is None or not all(isinstance(a, ast.Constant) for a in pe.args):
                return None
            m = {body[0].args.args[0].arg: d}
            ps = [a.arg for a in f.args.args]
            for p_, a in zip(ps, pe.args):
                m[p_] = a
            if f.args.vararg is not None:
                m[f.args.vararg.arg] = ast.Tuple(elts=list(pe.args[len(ps):]), ctx=ast.Load())
            elif len(pe.args) != len(ps):
                return None
            return unroll_all_any(substitute(r, m))
        return None
    # rows of any width — (predicate, value reader, builder, …) — used by a loop body of the form
    # `if <predicate>(d): <statements calling the other columns>; return …`: each row is read as the body with its
    # columns substituted, lambdas applied and single-return functions of the module replaced by what they return
    names = [x.id for x in loop.target.elts if isinstance(x, ast.Name)]
    first = loop.body[0] if loop.body else None
    generic = (len(names) == len(loop.target.elts) and len(names) >= 2 and len(loop.body) == 1 and isinstance(first, ast.If)
               and not first.orelse and isinstance(first.test, ast.Call) and isinstance(first.test.func, ast.Name)
               and first.test.func.id == names[0] and len(first.test.args) == 1
               and not all(isinstance(e, ast.Tuple) and len(e.elts) == 2 and isinstance(e.elts[1], ast.Name) for e in table.elts))
    if generic:
        def apply_known(stmt):
            class A(ast.NodeTransformer):
                def visit_Call(self, node):
                    self.generic_visit(node)
                    f_ = node.func
                    if isinstance(f_, ast.Lambda) and not node.keywords and len(node.args) == len(f_.args.args):
                        return substitute(f_.body, {p_.arg: a for p_, a in zip(f_.args.args, node.args)})
                    if isinstance(f_, ast.Name):
                        h_ = finder(f_.id)
                        r_ = single_return(h_) if h_ is not None else None
                        if r_ is not None and not any(isinstance(a, ast.Starred) for a in node.args) \
                                and all(k.arg is not None for k in node.keywords):
                            ps_ = [p_.arg for p_ in h_.args.args]
                            m_ = {p_: a for p_, a in zip(ps_, node.args)}
                            m_.update({k.arg: k.value for k in node.keywords if k.arg in ps_})
                            if set(m_) == set(ps_):
                                return substitute(r_, m_)
                    return node
            out = stmt
            for _ in range(3):
                out = A().visit(out)
            return out
        entries = []
        d = ast.Name(id=dparam, ctx=ast.Load())
        for e in table.elts:
            if not (isinstance(e, ast.Tuple) and len(e.elts) == len(names)):
                return None
            test = pred_test(e.elts[0], first.test.args[0])
            if test is None:
                return None
            m = {n_: c_ for n_, c_ in zip(names[1:], e.elts[1:])}
            body = [substitute_stmt(b, m) for b in first.body]
            # `kw = {"label": …, "source": …}` … `f(x, **kw)` reads as f(x, label=…, source=…)
            lits = {b.targets[0].id: b.value for b in body if isinstance(b, ast.Assign) and len(b.targets) == 1
                    and isinstance(b.targets[0], ast.Name) and isinstance(b.value, ast.Dict)
                    and all(isinstance(k, ast.Constant) and isinstance(k.value, str) for k in b.value.keys)}
            for b in body:
                for c_ in [x for x in ast.walk(b) if isinstance(x, ast.Call)]:
                    kws = []
                    for k in c_.keywords:
                        if k.arg is None and isinstance(k.value, ast.Name) and k.value.id in lits:
                            kws += [ast.keyword(arg=kk.value, value=vv) for kk, vv in zip(lits[k.value.id].keys, lits[k.value.id].values)]
                        else:
                            kws.append(k)
                    c_.keywords = kws
            body = [apply_known(b) for b in body]
            for b in body:
                for x in ast.walk(b):
                    for ch in ast.iter_child_nodes(x):
                        ch._parent = x
            entries.append((test, body))
        paths = []
        for i, (test, body) in enumerate(entries):
            conds = [(t, False) for t, _ in entries[:i]] + [(test, True)]
            paths.append(Path(conds, body, "return"))
        paths.append(Path([(t, False) for t, _ in entries], [], "return"))
        return paths
    # any other loop body `if <test over the columns and the dict>: <statements>; return …`: each row read with its
    # columns substituted into the test and the body, and what is then decided, decided: `{"a", "b"} <= d.keys()` is
    # `"a" in d and "b" in d`, `None is None` holds, `<lambda> is None` does not, lambdas are applied, small functions of
    # the module replaced by what they return
    if (len(names) == len(loop.target.elts) and len(loop.body) == 1 and isinstance(first, ast.If) and not first.orelse
            and all(isinstance(e, ast.Tuple) and len(e.elts) == len(names) for e in table.elts)
            and not all(len(e.elts) == 2 and isinstance(e.elts[1], ast.Name) for e in table.elts)):
        from ..astutil import straightline_value as _slv

        def decide(t):
            class D(ast.NodeTransformer):
                def visit_Call(self, node):
                    self.generic_visit(node)
                    f_ = node.func
                    if isinstance(f_, ast.Lambda) and not node.keywords and len(node.args) == len(f_.args.args):
                        return self.visit(substitute(f_.body, {p_.arg: a for p_, a in zip(f_.args.args, node.args)}))
                    if isinstance(f_, ast.Name):
                        v = _slv(node, None, finder)
                        if v is not None:
                            return self.visit(v)
                    return node

                def visit_Compare(self, node):
                    self.generic_visit(node)
                    if len(node.ops) == 1:
                        l, r, op = node.left, node.comparators[0], node.ops[0]
                        if isinstance(op, (ast.Is, ast.IsNot)) and isinstance(r, ast.Constant) and r.value is None:
                            if isinstance(l, ast.Constant) and l.value is None:
                                return ast.copy_location(ast.Constant(value=isinstance(op, ast.Is)), node)
                            if isinstance(l, (ast.Lambda, ast.Name)) and (isinstance(l, ast.Lambda) or finder(l.id) is not None):
                                return ast.copy_location(ast.Constant(value=isinstance(op, ast.IsNot)), node)
                        if isinstance(op, ast.LtE) and isinstance(l, ast.Set) and l.elts and all(isinstance(x, ast.Constant) for x in l.elts) \
                                and (norm(r) in (f"{dparam}.keys()", f"set({dparam})", f"set({dparam}.keys())", dparam)):
                            vals = [ast.Compare(left=x, ops=[ast.In()], comparators=[r]) for x in sorted(l.elts, key=lambda c: str(c.value))]
                            return ast.copy_location(vals[0] if len(vals) == 1 else ast.BoolOp(op=ast.And(), values=vals), node)
                    return node

                def visit_BoolOp(self, node):
                    self.generic_visit(node)
                    vals = []
                    for v in node.values:
                        if isinstance(v, ast.Constant) and isinstance(v.value, bool):
                            if isinstance(node.op, ast.And) and v.value is False:
                                return ast.copy_location(ast.Constant(value=False), node)
                            if isinstance(node.op, ast.Or) and v.value is True:
                                return ast.copy_location(ast.Constant(value=True), node)
                            continue
                        vals.append(v)
                    if not vals:
                        return ast.copy_location(ast.Constant(value=isinstance(node.op, ast.And)), node)
                    if len(vals) == 1:
                        return vals[0]
                    node.values = vals
                    return node
            out = D().visit(t)
            ast.fix_missing_locations(out)
            return out
        entries = []
        for e in table.elts:
            m = {n_: c_ for n_, c_ in zip(names, e.elts)}
            test = decide(substitute(first.test, m))
            body = [decide(substitute_stmt(b, m)) for b in first.body]
            for b in body:
                for x in ast.walk(b):
                    for ch in ast.iter_child_nodes(x):
                        ch._parent = x
            entries.append((test, body))
        # the loop unrolled over the rows, in place, in a copy of the reader: what precedes and follows it is part of
        # every path, with its own branches
        from ..paths import enumerate_paths as _enum
        from ..astutil import clone as _clone_r, set_parents as _sp_r
        unrolled = []
        for test, body in entries:
            if isinstance(test, ast.Constant) and test.value is False:
                continue
            if isinstance(test, ast.Constant) and test.value is True:
                unrolled += body
                break
            unrolled.append(ast.copy_location(ast.If(test=test, body=body, orelse=[]), loop))
        view = _clone_r(reader)
        idx = next((i for i, st in enumerate(reader.body) if st is loop), None)
        if idx is None:
            return None
        view.body = view.body[:idx] + unrolled + view.body[idx + 1:]
        ast.fix_missing_locations(view)
        return _enum(_sp_r(view))
    entries = []
    for e in table.elts:
        if not (isinstance(e, ast.Tuple) and len(e.elts) == 2 and isinstance(e.elts[1], ast.Name)):
            return None
        h = finder(e.elts[1].id)
        if h is None or not h.args.args:
            return None
        d = ast.Name(id=dparam, ctx=ast.Load())
        test = pred_test(e.elts[0], d)
        if test is None:
            return None
        body = [substitute_stmt(b, {h.args.args[0].arg: d}) for b in h.body]
        entries.append((test, body))
    paths = []
    for i, (test, body) in enumerate(entries):
        conds = [(t, False) for t, _ in entries[:i]] + [(test, True)]
        paths.append(Path(conds, body, "return"))
    paths.append(Path([(t, False) for t, _ in entries], [], "return"))
    return paths


EXPECTED_READER_CTOR = {"ExplainableObject": "SourceObject", "EmptyExplainableObject": "EmptyExplainableObject",
                        "ExplainableQuantity": "ExplainableQuantity",
                        "ExplainableHourlyQuantities": "ExplainableHourlyQuantities"}


@rule("R-JSON-KEYS")
def r_json_keys(E):
    pm = E.pm
    res = RuleResult("R-JSON-KEYS", "for every path through a to_json writer of an explainable value, the reader's "
                                    "if/elif chain selects a branch and that branch only subscripts keys the writer emitted")
    rel, reader = pm.find_function(J2S, "json_to_explainable_object")
    from ..paths import enumerate_paths
    rpaths = enumerate_paths(reader)
    tpaths = _table_reader_paths(pm, rel, reader)
    if tpaths is not None:
        rpaths = tpaths
    if len(rpaths) < 4:
        raise AnalysisError("json_to_explainable_object: fewer than 4 paths (one per kind of value expected)")
    writers = [("ExplainableObject", EB), ("EmptyExplainableObject", EO), ("ExplainableQuantity", EO),
               ("ExplainableHourlyQuantities", EO)]
    from ..astutil import inline_helpers
    def _super_method(fn_, name):
        """the method `name` that super() reaches from fn_ (a method of a class of the hierarchy written)"""
        oc = getattr(fn_, "_owner_class", None) or (fn_._parent.name if isinstance(getattr(fn_, "_parent", None), ast.ClassDef) else None)
        if oc is None:
            return None
        for base in pm.mro(oc)[1:]:
            for b_ in pm.classes[base].node.body if base in pm.classes else []:
                if isinstance(b_, ast.FunctionDef) and b_.name == name:
                    return b_
        return None
    for cls, suffix in writers:
        # (the writer of a class is the to_json it inherits when it does not define one: a template method whose hooks
        # the class overrides)
        wowner, w = pm.find_method(cls, "to_json")
        if w is None:
            raise AnalysisError(f"{cls}.to_json vanished")
        wrel = pm.classes[wowner].path
        w0_ = w
        w = inline_helpers(w, lambda name, _c=cls: (pm.find_method(_c, name)[1] if name != "to_json" else None))
        w._owner_class = wowner
        for p in _writer_paths(w, lambda name, _c=cls: (pm.find_method(_c, name)[1] if name != "to_json" else None),
                               super_method=_super_method):
            res.instances += 1
            selected, problem = _select_reader_path(rpaths, p, reader)
            where = f"{cls}.to_json [{' & '.join(p['conds']) or 'always'}]"
            branch = ""
            if problem is None:
                taken = [norm(t)[:50] for t, pol in selected.conds if pol]
                branch = taken[-1] if taken else "else"
                used = set()
                for st in selected.stmts:
                    for n in ast.walk(st):
                        if isinstance(n, ast.Subscript) and isinstance(n.value, ast.Name) and n.value.id == "input_dict" \
                                and isinstance(n.slice, ast.Constant) and isinstance(n.ctx, ast.Load):
                            used.add(n.slice.value)
                miss = used - p["keys"]
                built = {norm(c.func) for c in selected.calls() if norm(c.func) in EXPECTED_READER_CTOR.values()}
                if not built:
                    problem = "no branch of json_to_explainable_object matches: the value is loaded as None"
                elif EXPECTED_READER_CTOR[cls] not in built:
                    problem = f"the selected reader branch builds {sorted(built)} instead of a " \
                              f"{EXPECTED_READER_CTOR[cls]}: the value comes back as another kind of object"
                elif miss:
                    problem = f"the selected reader branch (`{branch}`) " \
                              f"subscripts {sorted(miss)}, which this writer path does not emit: KeyError on load"
            if problem:
                key = f"{cls}.to_json [{' & '.join(c for c in p['conds'] if 'source' not in c and 'calculated' not in c) or 'always'}]"
                if not any(f.key == key for f in res.findings):
                    res.findings.append(Finding("R-JSON-KEYS", key, f"{where}: emits {sorted(p['keys'])}; {problem}",
                                                rel, reader.lineno, "json_to_explainable_object"))
            elif len(res.samples) < 5:
                res.samples.append({"writer_path": where, "emits": sorted(p["keys"]),
                                    "reader_branch": branch,
                                    "verdict": "branch reads only emitted keys"})
    # a key is left out only when its own datum is missing (or when a parameter of the writer says so): the test that
    # guards `d["source"] = {… self.source.name …}` may look at self.source, not at something else about the value
    from ..astutil import path_conditions as _pc, nodes_through_helpers as _nth
    for cls, suffix in writers:
        wowner, w0 = pm.find_method(cls, "to_json")
        wrel = pm.classes[wowner].path
        finder = lambda name, _c=cls: (pm.find_method(_c, name)[1] if name != "to_json" else None)
        fns, todo = [w0], [w0]
        while todo:
            f_ = todo.pop()
            for c in ast.walk(f_):
                if isinstance(c, ast.Call) and isinstance(c.func, ast.Attribute) and norm(c.func.value) == "self":
                    h = finder(c.func.attr)
                    if h is not None and h not in fns and not is_property(h):
                        fns.append(h)
                        todo.append(h)
        for f_ in fns:
            params = {a.arg for a in f_.args.args}
            for st in ast.walk(f_):
                if not (isinstance(st, ast.Assign) and isinstance(st.targets[0], ast.Subscript)
                        and isinstance(st.targets[0].slice, ast.Constant) and isinstance(st.targets[0].slice.value, str)):
                    continue
                key_ = st.targets[0].slice.value
                reads = {x.attr for x in ast.walk(st.value) if isinstance(x, ast.Attribute)
                         and isinstance(x.value, ast.Name) and x.value.id == "self"}
                for _ in range(3):      # what a property / helper of the class reads is read by the value too
                    for a_ in sorted(reads):
                        h_ = finder(a_)
                        if h_ is not None:
                            reads |= {x.attr for x in ast.walk(h_) if isinstance(x, ast.Attribute)
                                      and isinstance(x.value, ast.Name) and x.value.id == "self"}
                for t, pol in _pc(st, f_):
                    atoms = t.values if isinstance(t, ast.BoolOp) else [t]
                    for at in atoms:
                        res.instances += 1
                        a_reads = {x.attr for x in ast.walk(at) if isinstance(x, ast.Attribute)
                                   and isinstance(x.value, ast.Name) and x.value.id == "self"}
                        a_names = {x.id for x in ast.walk(at) if isinstance(x, ast.Name)} - {"self"}
                        if a_reads and not (a_reads & reads) and not (a_names & params) and reads:
                            fkey = f"{cls}.to_json key {key_} depends on {sorted(a_reads)[0]}"
                            if not any(f.key == fkey for f in res.findings):
                                res.findings.append(Finding(
                                    "R-JSON-KEYS", fkey,
                                    f"{cls}.to_json (in {f_.name}) writes the key '{key_}' (from self.{', self.'.join(sorted(reads))}) "
                                    f"only when `{norm(at)[:50]}`, a test that does not look at the datum written: a value "
                                    f"that has the datum but fails the test (an input with a source *and* a parent, such "
                                    f"as a country's carbon intensity) is exported without it and loads back without it",
                                    wrel, st.lineno, f"{cls}.{f_.name}"))
    res.floor = 8        # four writers, at least the with / without calculated-attributes paths of each
    return res


@rule("R-JSON-KINDS")
def r_json_kinds(E):
    pm = E.pm
    res = RuleResult("R-JSON-KINDS", "every attribute a public class's constructor assigns is either excluded from "
                                     "export or of a kind ModelingObject.to_json has a branch for; excluded constructor "
                                     "parameters are in the writer's explicit whitelist")
    rel, tj = pm.find_function(MO, "ModelingObject.to_json")
    whitelist = set()
    # the name of an attribute is the first variable of the loop over self.__dict__.items()
    keyvars = {"key"}
    for n in ast.walk(tj):
        if isinstance(n, (ast.For, ast.comprehension)) and "__dict__" in norm(n.iter) and isinstance(n.target, ast.Tuple) \
                and n.target.elts and isinstance(n.target.elts[0], ast.Name):
            keyvars.add(n.target.elts[0].id)
    for n in ast.walk(tj):
        if isinstance(n, ast.Compare) and isinstance(n.ops[0], ast.In) \
                and isinstance(n.comparators[0], (ast.List, ast.Tuple, ast.Set)) and norm(n.left) in keyvars:
            whitelist |= {e.value for e in n.comparators[0].elts if isinstance(e, ast.Constant)}
    # (the kind dispatch may sit in a helper of the class that to_json calls per attribute)
    from ..astutil import nodes_through_helpers as _nthk
    tests = [n.test for n in _nthk(tj, pm.helper_finder("ModelingObject"), depth=2) if isinstance(n, ast.If)]

    def isinst(name):
        return any(isinstance(c, ast.Call) and norm(c.func) == "isinstance" and len(c.args) == 2 and name in norm(c.args[1])
                   for t in tests for c in ast.walk(t))
    has = {"none_or_str": isinst("str") and any(isinstance(c, ast.Compare) and isinstance(c.ops[0], ast.Is)
                                                 and norm(c.comparators[0]) == "None" for t in tests for c in ast.walk(t)),
           "model": isinst("ModelingObject"),
           "to_json": any(isinstance(c, ast.Constant) and c.value == "to_json" for t in tests for c in ast.walk(t))}
    if not all(has.values()):
        res.findings.append(Finding("R-JSON-KINDS", "ModelingObject.to_json branches",
                                    f"ModelingObject.to_json lost a dispatch branch: {has}", rel, tj.lineno,
                                    "ModelingObject.to_json"))
    for c in pm.ALL:
        excl = set(pm.no_update_attrs(c))
        params = set(pm.ctor_params(c))
        for a, ai in sorted(pm.init_attrs(c).items()):
            res.instances += 1
            if a in excl:
                if a in params and a not in whitelist and a != "name":
                    res.findings.append(Finding(
                        "R-JSON-KINDS", f"{c}.{a} excluded parameter not exported",
                        f"{c}.{a} is a constructor parameter excluded from the update logic but not in to_json's explicit "
                        f"list {sorted(whitelist)}: it is lost on save", pm.path_of(ai.owner), ai.node.lineno, f"{ai.owner}.__init__"))
                continue
            if ai.kind in ("input", "placeholder", "link"):
                continue
            v = ai.node.value
            if isinstance(v, ast.Constant) and (v.value is None or isinstance(v.value, str)):
                continue
            if isinstance(v, ast.JoinedStr):
                continue
            if ai.param is not None and ai.kind == "plain":
                pa = pm.ann(pm.ctor_params(c).get(ai.param)) if ai.param in pm.ctor_params(c) else None
                if pa and pa[1] & {"str"}:
                    continue
            res.findings.append(Finding(
                "R-JSON-KINDS", f"{c}.{a} unhandled kind",
                f"{c}.__init__ assigns self.{a} = {norm(v)[:50]}, which is neither excluded by "
                f"attributes_that_shouldnt_trigger_update_logic nor of a kind to_json handles: exporting a {c} raises",
                pm.path_of(ai.owner), ai.node.lineno, f"{ai.owner}.__init__"))
    res.samples = [{"to_json_whitelist": sorted(whitelist), "branches": has}]
    res.floor = 200
    return res


@rule("R-JSON-UPG")
def r_json_upg(E):
    pm = E.pm
    res = RuleResult("R-JSON-UPG", "VERSION_UPGRADE_HANDLERS has a handler for every major version from 9 to the current "
                                   "major - 1, and the loader applies them in order")
    import os
    import re
    vpath = os.path.join(pm.root, "version.py")
    src = open(vpath).read() if os.path.exists(vpath) else ""
    m = re.search(r"__version__\s*=\s*[\"'](\d+)\.", src)
    if not m:
        raise AnalysisError("efootprint/version.py: __version__ not found")
    major = int(m.group(1))
    rel, tree = pm.module_tree("api_utils/version_upgrade_handlers.py")
    table = None
    for n in tree.body:
        if isinstance(n, ast.Assign) and norm(n.targets[0]) == "VERSION_UPGRADE_HANDLERS" and isinstance(n.value, ast.Dict):
            table = n
    if table is None:
        raise AnalysisError("VERSION_UPGRADE_HANDLERS vanished")
    keys = {k.value for k in table.value.keys if isinstance(k, ast.Constant)}
    funcs = {f.name for f in tree.body if isinstance(f, ast.FunctionDef)}
    for v in range(9, major):
        res.instances += 1
        if v not in keys:
            res.findings.append(Finding("R-JSON-UPG", f"handler for {v}",
                                        f"current major is {major} but no upgrade handler is registered for version {v}: "
                                        f"files written by version {v} raise KeyError on load", rel, table.lineno,
                                        "VERSION_UPGRADE_HANDLERS"))
    for k, v in zip(table.value.keys, table.value.values):
        res.instances += 1
        if not (isinstance(v, ast.Name) and v.id in funcs):
            res.findings.append(Finding("R-JSON-UPG", f"handler value {norm(k)}", f"handler {norm(v)} is not a function "
                                        f"of the module", rel, table.lineno, "VERSION_UPGRADE_HANDLERS"))
    rel2, j = pm.find_function(J2S, "json_to_system")
    res.instances += 1
    loop_ok = False
    from ..astutil import nodes_through_helpers, view_root
    is_range_loop = lambda n: isinstance(n, ast.For) and isinstance(n.iter, ast.Call) and norm(n.iter.func) == "range" \
        and len(n.iter.args) == 2 and isinstance(n.target, ast.Name)
    for n in nodes_through_helpers(j, find_function=pm.function_finder(rel2), want=is_range_loop, depth=2):
        if is_range_loop(n):
            for a in ast.walk(n):
                if isinstance(a, ast.Assign) and isinstance(a.value, ast.Call) and isinstance(a.value.func, ast.Subscript) \
                        and norm(a.value.func.value) == "VERSION_UPGRADE_HANDLERS" \
                        and norm(a.value.func.slice) == n.target.id and a.value.args \
                        and norm(a.targets[0]) == norm(a.value.args[0]):
                    hv, call = view_root(n)
                    if hv is None:
                        loop_ok = True
                    else:
                        # the loop sits in an extracted function: its result must come back into the loader's dict
                        st = getattr(call, "_parent", None)
                        rets = [r for r in ast.walk(hv) if isinstance(r, ast.Return)]
                        if isinstance(st, ast.Assign) and call.args and norm(st.targets[0]) == norm(call.args[0]) \
                                and rets and all(r.value is not None and norm(r.value) == norm(a.targets[0]) for r in rets):
                            loop_ok = True
    # the same fold written with reduce: d = reduce(lambda acc, v: VERSION_UPGRADE_HANDLERS[v](acc), range(a, b), d)
    for n in nodes_through_helpers(j, find_function=pm.function_finder(rel2), depth=2):
        if isinstance(n, ast.Assign) and isinstance(n.value, ast.Call) and norm(n.value.func) in ("reduce", "functools.reduce") \
                and len(n.value.args) == 3 and isinstance(n.value.args[0], ast.Lambda) and len(n.value.args[0].args.args) == 2:
            lam, rng, init = n.value.args
            acc, ver = [a.arg for a in lam.args.args]
            b = lam.body
            if isinstance(b, ast.Call) and isinstance(b.func, ast.Subscript) and norm(b.func.value) == "VERSION_UPGRADE_HANDLERS" \
                    and norm(b.func.slice) == ver and [norm(a) for a in b.args] == [acc] \
                    and isinstance(rng, ast.Call) and norm(rng.func) == "range" and len(rng.args) == 2 \
                    and norm(init) == norm(n.targets[0]):
                loop_ok = True
    if not loop_ok:
        res.findings.append(Finding("R-JSON-UPG", "loader loop", "json_to_system no longer applies the handlers for every "
                                    "version between the file's major and the current one", rel2, j.lineno, "json_to_system"))
    # each handler returns the dict it upgraded
    for f in tree.body:
        if isinstance(f, ast.FunctionDef):
            res.instances += 1
            rets = [r for r in ast.walk(f) if isinstance(r, ast.Return)]
            if not rets or any(r.value is None or norm(r.value) != f.args.args[0].arg for r in rets):
                res.findings.append(Finding("R-JSON-UPG", f"{f.name} return", f"{f.name} does not return the upgraded "
                                            f"dict on every path: the loader continues with None", rel, f.lineno, f.name))
    res.samples = [{"current_major": major, "handlers_for": sorted(keys)}]
    res.floor = 3
    return res


@rule("R-JSON-CLS")
def r_json_cls(E):
    pm = E.pm
    res = RuleResult("R-JSON-CLS", "the loader's class table covers what the writer can emit: public classes have distinct "
                                   "names, every link target has a public class, and the table is built from "
                                   "ALL_EFOOTPRINT_CLASSES")
    rel, _ = pm.module_tree("core/all_classes_in_order.py")
    res.instances += 1
    if len(set(pm.ALL)) != len(pm.ALL) or pm.dup_classes:
        res.findings.append(Finding("R-JSON-CLS", "duplicate class names", f"duplicate class names: {pm.dup_classes}", rel))
    for (c, a), (kind, tg) in sorted(pm.public_links().items()):
        res.instances += 1
        if not tg:
            res.findings.append(Finding(
                "R-JSON-CLS", f"{c}.{a} target not public",
                f"link {c}.{a} has no public target class: an object saved through it has no entry in the loader's class "
                f"table (KeyError on load)", pm.path_of(c)))
    # every concrete model class that can be instantiated and linked is public
    for cn in sorted(pm.classes):
        if not pm.is_model(cn) or cn in pm.ALL:
            continue
        abstract = any(is_abstract(f) for f in pm.own_methods(cn)) or bool(pm.pub(cn)) or cn == "ModelingObject"
        res.instances += 1
        if not abstract:
            res.findings.append(Finding(
                "R-JSON-CLS", f"{cn} not public",
                f"{cn} is a concrete model class that is not in ALL_EFOOTPRINT_CLASSES: a system using it cannot be "
                f"loaded back", pm.path_of(cn), pm.classes[cn].node.lineno, cn))
    rel2, j = pm.find_function(J2S, "json_to_system")
    res.instances += 1
    from_all = any(isinstance(n, (ast.comprehension, ast.For)) and any(
        isinstance(x, ast.Name) and x.id == "ALL_EFOOTPRINT_CLASSES" for x in ast.walk(n.iter)) for n in ast.walk(j))
    if not from_all:
        res.findings.append(Finding("R-JSON-CLS", "class table source", "json_to_system no longer builds its class table "
                                    "from ALL_EFOOTPRINT_CLASSES", rel2, j.lineno, "json_to_system"))
    # the writer keys objects by class_as_simple_str == type(self).__name__
    rel3, w = pm.find_function("api_utils/system_to_json.py", "recursively_write_json_dict")
    res.instances += 1
    # anywhere in the writer's module (the function, or the class it is written with): an entry of the output filed under
    # `<object>.class_as_simple_str` — d[key] / d.setdefault(key, …) / `key not in d`, the key possibly held in a local
    _rel3, wtree = pm.module_tree("api_utils/system_to_json.py")
    from ..astutil import fully_expanded as _fx_w

    def _by_class(fn_):
        for n_ in ast.walk(fn_):
            k_ = None
            if isinstance(n_, ast.Subscript):
                k_ = n_.slice
            elif isinstance(n_, ast.Call) and isinstance(n_.func, ast.Attribute) and n_.func.attr in ("setdefault", "get") and n_.args:
                k_ = n_.args[0]
            if k_ is not None and norm(_fx_w(k_, fn_)).endswith(".class_as_simple_str"):
                return True
        return False
    keyed = any(_by_class(f_) for f_ in ast.walk(wtree) if isinstance(f_, ast.FunctionDef))
    if not keyed:
        res.findings.append(Finding("R-JSON-CLS", "writer class key", "the writer no longer keys objects by class name",
                                    rel3, w.lineno, w.name))
    res.floor = 20
    return res


# ---------------------------------------------------------------------------------------------- validation
def _annotation_form(a):
    if a is None:
        return "none"
    if isinstance(a, ast.Subscript):
        base = norm(a.value)
        return "list" if base in ("List", "list") else f"generic:{base}"
    if isinstance(a, ast.BinOp) and isinstance(a.op, ast.BitOr):
        return "union"
    if isinstance(a, (ast.Name, ast.Attribute, ast.Constant)):
        return "class"
    return "other"


def _elementwise_type_check(c, vparam, fn):
    """isinstance(<element>, <inner type of the annotation>) evaluated for every element of the value: inside a
    comprehension / generator (or a for loop) that ranges over the value parameter"""
    from ..astutil import fully_expanded
    if "get_args(" not in norm(fully_expanded(c.args[1], fn)):
        return False
    elem = norm(c.args[0])
    x = getattr(c, "_parent", None)
    while x is not None and x is not fn:
        if isinstance(x, (ast.GeneratorExp, ast.ListComp, ast.SetComp)):
            if any(norm(g.target) == elem and norm(g.iter) == vparam for g in x.generators):
                return True
        if isinstance(x, ast.For) and norm(x.target) == elem and norm(x.iter) == vparam:
            return True
        x = getattr(x, "_parent", None)
    return False


def _inside_comprehension(n):
    x = getattr(n, "_parent", None)
    while x is not None and not isinstance(x, ast.stmt):
        if isinstance(x, (ast.GeneratorExp, ast.ListComp, ast.SetComp)):
            return True
        x = getattr(x, "_parent", None)
    return False


def _validator_forms(fn, module_const=None):
    """which annotation forms does check_input_value_type_positivity_and_unit actually check?"""
    from ..astutil import fully_expanded, exits
    handled = set()
    top = None

    def origin_call(t):
        t = fully_expanded(t, fn)
        if isinstance(t, ast.UnaryOp) and isinstance(t.op, ast.Not):
            t = t.operand
        return isinstance(t, ast.Call) and norm(t.func) == "get_origin" and len(t.args) == 1
    for n in ast.walk(fn):
        if isinstance(n, ast.If) and origin_call(n.test):
            top = n
    if top is None:
        return None
    t0 = fully_expanded(top.test, fn)
    negated = isinstance(t0, ast.UnaryOp)
    top_body, top_else = (top.orelse, top.body) if negated else (top.body, top.orelse)
    if not top_else and exits(top_body):
        # `if origin: …; return` followed by the class branch
        par = getattr(top, "_parent", None)
        for field in ("body", "orelse"):
            block = getattr(par, field, None)
            if isinstance(block, list) and any(s is top for s in block):
                top_else = block[next(i for i, s in enumerate(block) if s is top) + 1:]
    names_in_origin_tests = set()

    def names_of(c):
        out = set()
        for x in ast.walk(c):
            if isinstance(x, ast.Name):
                v = module_const(x.id) if module_const is not None else None
                out |= {y.id for y in ast.walk(v) if isinstance(y, ast.Name)} if v is not None else {x.id}
        return out
    for n in ast.walk(fn):
        if isinstance(n, ast.Compare) and "get_origin" in norm(fully_expanded(n.left, fn)):
            for c in n.comparators:
                names_in_origin_tests |= names_of(c)
    if names_in_origin_tests & {"list", "List"}:
        handled.add("list")
    if names_in_origin_tests & {"Union", "UnionType"}:
        handled.add("union")
    # the branch taken when there is no origin handles plain classes
    # (an isinstance test of the value — the validator's third parameter — against the annotation itself)
    val = fn.args.args[2].arg if len(fn.args.args) > 2 else "input_value"
    for b in top_else:
        for c in ast.walk(b):
            if isinstance(c, ast.Call) and isinstance(c.func, ast.Name) and c.func.id == "isinstance" and len(c.args) == 2 \
                    and norm(c.args[0]) == val and isinstance(c.args[1], ast.Name):
                handled.add("class")
    return handled


@rule("R-VAL-WRAP")
def r_val_wrap(E):
    pm = E.pm
    res = RuleResult("R-VAL-WRAP", "the class tests of the validator (isinstance(value, <annotation>), isinstance(item, "
                                   "<element class>)) answer for the object actually given: an __instancecheck__ override on "
                                   "the model metaclass never answers True without looking at the class that is asked about "
                                   "— constructors wrap links and list elements before validating them, and a wrapper that "
                                   "passes for every class lets a Server sit among the devices")
    from ..paths import enumerate_paths
    for cn, ci in sorted(pm.classes.items()):
        for m in [x for x in ci.node.body if isinstance(x, ast.FunctionDef) and x.name == "__instancecheck__"]:
            ps = [a.arg for a in m.args.args]
            if len(ps) < 2:
                continue
            # only metaclasses decide isinstance(x, <model class>): the first parameter is the class asked about
            is_meta = any(norm(b) in ("type", "ABCMeta") or norm(b).endswith("Meta") for b in ci.node.bases)
            if not is_meta:
                continue
            res.instances += 1
            asked = ps[0]
            for p in enumerate_paths(m):
                if p.end != "return" or not p.stmts or not isinstance(p.stmts[-1], ast.Return):
                    continue
                r = p.stmts[-1]
                if isinstance(r.value, ast.Constant) and r.value.value is True and not any(
                        isinstance(x, ast.Name) and x.id == asked for c, _ in p.conds for x in ast.walk(c)):
                    res.findings.append(Finding(
                        "R-VAL-WRAP", f"{cn}.__instancecheck__ answers True whatever the class",
                        f"{cn}.__instancecheck__ returns True when `{' and '.join(norm(c)[:60] for c, pol in p.conds)}` without "
                        f"looking at `{asked}`: isinstance(<wrapper of a Server>, Device) is True, so the element-class and "
                        f"link-class tests of check_input_value_type_positivity_and_unit accept any wrapped object — and "
                        f"constructors wrap their links and lists before validating them", ci.path, r.lineno,
                        f"{cn}.__instancecheck__"))
    res.floor = 1
    return res


@rule("R-VAL-FORMS")
def r_val_forms(E):
    pm = E.pm
    res = RuleResult("R-VAL-FORMS", "the input validator dispatches on the form of the parameter annotation; every "
                                    "annotation form used by a constructor parameter of a public class lands in a branch "
                                    "that checks something")
    rel, fn = pm.find_function(MO, "ModelingObject.check_input_value_type_positivity_and_unit")
    modname = next((m for m, (r, t, _) in pm.modules.items() if r == rel), None)
    handled = _validator_forms(fn, (lambda nm: pm._module_const(modname, nm)) if modname else None)
    if handled is None:
        raise AnalysisError("check_input_value_type_positivity_and_unit: dispatch on get_origin(annotation) not found")
    forms = {}
    for c in pm.ALL:
        for p, a in pm.ctor_params(c).items():
            if p == "name":
                continue
            res.instances += 1
            f = _annotation_form(a)
            forms.setdefault(f, []).append(f"{c}.{p}")
            if f not in handled and f != "none":
                res.findings.append(Finding(
                    "R-VAL-FORMS", f"{c}.{p} annotation form {f}",
                    f"{c}.__init__ parameter {p}: {norm(a)} is a {f} annotation; get_origin() is truthy for it but the "
                    f"validator only looks for list origins there, so the value is accepted unchecked — wrong type, "
                    f"wrong dimension or negative", pm.path_of(pm.ctor(c)[0]), pm.ctor(c)[1].lineno, f"{c}.__init__"))
    # the checks inside the class branch: type, dimension, sign
    vparam = fn.args.args[2].arg if len(fn.args.args) > 2 else "input_value"
    from ..astutil import fully_expanded as _fx
    cmps = [n for n in ast.walk(fn) if isinstance(n, ast.Compare)]
    isins = [c for c in ast.walk(fn) if isinstance(c, ast.Call) and norm(c.func) == "isinstance" and len(c.args) == 2]
    present = {
        "dimension": any(isinstance(c.ops[0], ast.NotEq) and norm(c.left).endswith(".dimensionality")
                         and norm(c.comparators[0]).endswith(".dimensionality") and vparam in norm(c) for c in cmps),
        "sign": any(isinstance(c.ops[0], (ast.Lt, ast.LtE)) and vparam in norm(c.left) and "magnitude" in norm(c.left)
                    and norm(c.comparators[0]) == "0" for c in cmps),
        "type": any(norm(c.args[0]) == vparam and norm(_fx(c.args[1], fn)).endswith(".annotation") for c in isins),
        "list element type": any(_elementwise_type_check(c, vparam, fn) for c in isins),
    }
    for what, ok in present.items():
        res.instances += 1
        if not ok:
            res.findings.append(Finding("R-VAL-FORMS", f"validator lost its {what} check",
                                        f"check_input_value_type_positivity_and_unit no longer checks the {what}", rel,
                                        fn.lineno, fn.name))
    raises = [n for n in ast.walk(fn) if isinstance(n, ast.Raise)]
    res.instances += 1
    if len(raises) < 4:
        res.findings.append(Finding("R-VAL-FORMS", "validator raises", f"the validator has {len(raises)} raise statements "
                                    f"(4 expected: list element, type, dimension, sign)", rel, fn.lineno, fn.name))
    res.breakdown = {"forms_handled": sorted(handled), "forms_used": {k: len(v) for k, v in forms.items()}}
    res.samples = [{"form": k, "examples": v[:3]} for k, v in forms.items()]
    res.floor = 100
    return res


def _is_change_pair(fn, old, new):
    """`old, new = <changes list>[i]` (or the target of a loop over it) binds exactly these two names, in this order"""
    for a in ast.walk(fn):
        if isinstance(a, (ast.Assign, ast.For)):
            t = a.targets[0] if isinstance(a, ast.Assign) else a.target
            src = a.value if isinstance(a, ast.Assign) else a.iter
            # for index, (old, new) in enumerate(self.changes_list)
            if isinstance(a, ast.For) and isinstance(t, ast.Tuple) and len(t.elts) == 2 and isinstance(t.elts[1], ast.Tuple) \
                    and isinstance(src, ast.Call) and norm(src.func) == "enumerate":
                t = t.elts[1]
            if isinstance(t, ast.Tuple) and len(t.elts) == 2 and all(isinstance(x, ast.Name) for x in t.elts) \
                    and [t.elts[0].id, t.elts[1].id] == [old, new]:
                if "changes_list" in norm(src):
                    return True
                # `for i, change in enumerate(self.changes_list): old, new = change`
                if isinstance(src, ast.Name) and any(
                        isinstance(l, ast.For) and src.id in {y.id for y in ast.walk(l.target) if isinstance(y, ast.Name)}
                        and "changes_list" in norm(l.iter) for l in ast.walk(fn)):
                    return True
    return False


@rule("R-VAL-SIB")
def r_val_sib(E):
    pm = E.pm
    res = RuleResult("R-VAL-SIB", "both entry paths (construction through __setattr__; later edits through ModelingUpdate) "
                                  "call both validators")
    rel, sa = pm.find_function(MO, "ModelingObject.__setattr__")
    rel2, pc = pm.find_function(MU, "ModelingUpdate.parse_changes_list")
    from .framework import TxnAnalysis as _TA
    init = _TA(pm).methods["__init__"]
    checks = [("construction", sa, rel, "check_input_value_type_positivity_and_unit"),
              ("construction", sa, rel, "check_belonging_to_authorized_values"),
              ("update", pc, rel2, "check_input_value_type_positivity_and_unit"),
              ("update", init, rel2, "check_belonging_to_authorized_values")]
    from ..astutil import calls_through_helpers
    for path, fn, r, v in checks:
        res.instances += 1
        finder = pm.helper_finder("ModelingObject" if path == "construction" else "ModelingUpdate")
        is_v = lambda c: isinstance(c.func, ast.Attribute) and c.func.attr == v
        calls = [c for c in calls_through_helpers(fn, finder, want=is_v) if is_v(c)]
        if not calls:
            res.findings.append(Finding("R-VAL-SIB", f"{path} path lacks {v}",
                                        f"the {path} path ({fn.name}) no longer calls {v}: values refused on one path are "
                                        f"accepted on the other", r, fn.lineno, fn.name))
            continue
        c = calls[0]
        # the validator receives the attribute name and the new value (positionally or by keyword)
        vowner, vfn = pm.find_method("ModelingObject", v)
        vparams = [a.arg for a in vfn.args.args][1:] if vfn is not None else []
        pos = list(c.args)
        for pname in vparams[len(pos):]:
            kw = next((k.value for k in c.keywords if k.arg == pname), None)
            if kw is None:
                break
            pos.append(kw)
        if len(pos) != len(c.args):
            c = ast.copy_location(ast.Call(func=c.func, args=pos, keywords=[]), c)
        args = [norm(a) for a in c.args]
        own = [a.arg for a in fn.args.args][1:3]
        if path == "construction" and args[:2] != own:
            res.findings.append(Finding("R-VAL-SIB", f"{path} {v} arguments", f"{fn.name} calls {v}({', '.join(args[:2])})",
                                        r, c.lineno, fn.name))
        if path == "update" and v.startswith("check_input") and not (
                len(c.args) >= 2 and isinstance(c.args[0], ast.Attribute) and c.args[0].attr == "attr_name_in_mod_obj_container"
                and isinstance(c.args[0].value, ast.Name) and isinstance(c.args[1], ast.Name)
                and _is_change_pair(fn, c.args[0].value.id, c.args[1].id)):
            res.findings.append(Finding("R-VAL-SIB", f"{path} {v} arguments", f"{fn.name} calls {v}({', '.join(args[:2])})",
                                        r, c.lineno, fn.name))
        if path == "update" and v == "check_belonging_to_authorized_values" and len(c.args) >= 2:
            # the allowed values depend on the object's other attributes (conditional lists): each new value is checked by
            # *its own* container, under its own attribute name — not by the container of another value of the batch
            from ..astutil import view_root as _vr_v, fully_expanded as _fx_v
            host = _vr_v(c)[0] or fn
            val = norm(c.args[1])
            recv = norm(_fx_v(c.func.value, host))
            name_arg = norm(_fx_v(c.args[0], host))
            # a small record of the module (NamedTuple / dataclass) that names the pair and derives the container / the
            # attribute name from one of its fields with a property: `change.modeling_obj_container` reads as the
            # property's expression on `change`
            mtree = next((t for m_, (r_, t, _s) in pm.modules.items() if r_ == r), None)
            for rc in [x for x in (mtree.body if mtree is not None else []) if isinstance(x, ast.ClassDef)]:
                fields = {b.target.id for b in rc.body if isinstance(b, ast.AnnAssign) and isinstance(b.target, ast.Name)}
                props = {}
                for f_ in [b for b in rc.body if isinstance(b, ast.FunctionDef) and is_property(b)]:
                    body_ = [b for b in f_.body if not (isinstance(b, ast.Expr) and isinstance(b.value, ast.Constant))]
                    if len(body_) == 1 and isinstance(body_[0], ast.Return) and body_[0].value is not None:
                        props[f_.name] = norm(body_[0].value)
                if not fields or not props or "." not in val:
                    continue
                base_, fld = val.rsplit(".", 1)
                if fld not in fields:
                    continue

                def through(txt):
                    if txt.startswith(base_ + ".") and txt[len(base_) + 1:] in props:
                        body_txt = props[txt[len(base_) + 1:]]
                        return (base_ + body_txt[4:]) if body_txt.startswith("self.") else txt
                    return txt
                recv, name_arg = through(recv), through(name_arg)
            res.instances += 1
            if recv != f"{val}.modeling_obj_container" or name_arg != f"{val}.attr_name_in_mod_obj_container":
                res.findings.append(Finding(
                    "R-VAL-SIB", f"{path} {v} receiver",
                    f"{fn.name} checks the new value `{val}` with `{recv[:60]}.{v}({name_arg[:50]}, {val}, …)`: the object "
                    f"asked is not the value's own container (or not under the value's own attribute name), so values are "
                    f"validated against the conditional lists of another object of the batch", r, c.lineno, fn.name))
        # construction: guarded only by check_input_validity and not for calculated attributes
        if len(res.samples) < 4:
            res.samples.append({"path": path, "function": fn.name, "validator": v, "call": norm(c)[:90]})
    # in parse_changes_list the type check must not be skipped for any non-None value: inside the loop over the
    # changes, every path that does not raise either calls the validator or is taken only when the new value is None
    res.instances += 1
    from ..paths import enumerate_paths, path_formula, implies, parse
    V = "check_input_value_type_positivity_and_unit"
    is_val = lambda n: isinstance(n, ast.Call) and isinstance(n.func, ast.Attribute) and n.func.attr == V
    loop = next((n for n in ast.walk(pc) if isinstance(n, ast.For) and any(is_val(x) for x in ast.walk(n))), None)
    if loop is None:
        res.findings.append(Finding("R-VAL-SIB", "update path check guard",
                                    "parse_changes_list must validate every new value that is not None", rel2, pc.lineno,
                                    pc.name))
    else:
        newv = None
        for c in ast.walk(loop):
            if is_val(c):
                a1 = c.args[1] if len(c.args) >= 2 else next((k.value for k in c.keywords if k.arg == "input_value"), None)
                if a1 is not None:
                    newv = norm(a1)
        body = ast.FunctionDef(name=pc.name, args=pc.args, body=loop.body, decorator_list=[], returns=None)
        none_test = parse(f"{newv} is None") if newv else None
        for path in enumerate_paths(body, is_val):
            if path.end == "raise" or any(is_val(c) for c in path.calls()):
                continue
            if none_test is None or not implies(path_formula(path.conds, pc), none_test):
                cond = " and ".join(("" if pol else "not ") + "(" + norm(t)[:60] + ")" for t, pol in path.conds)
                res.findings.append(Finding(
                    "R-VAL-SIB", "update path check guard",
                    f"parse_changes_list must validate every new value that is not None, but when `{cond[:140]}` the "
                    f"value is installed without the type / unit / class check", rel2, loop.lineno, pc.name))
                break
    res.floor = 5
    return res


@rule("R-VAL-DEF")
def r_val_def(E):
    pm = E.pm
    res = RuleResult("R-VAL-DEF", "every ExplainableQuantity-annotated constructor parameter of a public class has a key in "
                                  "the class's default_values() (the dimension check reads default_values[name])")
    for c in pm.ALL:
        owner, fn = pm.find_method(c, "default_values")
        keys = None
        if fn is not None:
            d = next((n for n in ast.walk(fn) if isinstance(n, ast.Return) and isinstance(n.value, ast.Dict)), None)
            if d is not None:
                keys = {k.value for k in d.value.keys if isinstance(k, ast.Constant)}
        for p, a in pm.ctor_params(c).items():
            if not (isinstance(a, ast.Name) and a.id == "ExplainableQuantity"):
                continue
            res.instances += 1
            if keys is None:
                res.undecided.append(f"{c}.default_values: not a literal dict")
                continue
            if p not in keys:
                res.findings.append(Finding(
                    "R-VAL-DEF", f"{c}.{p} has no default",
                    f"{c}.__init__({p}: ExplainableQuantity) but {owner}.default_values() has no '{p}' key: validating "
                    f"any value for it raises KeyError instead of checking its dimension", pm.path_of(owner),
                    fn.lineno, f"{owner}.default_values"))
            elif len(res.samples) < 3:
                res.samples.append({"parameter": f"{c}.{p}", "default_key": True})
    res.floor = 55
    return res


# ---------------------------------------------------------------------------------------------- R-JSON-DISPATCH (C13)
@rule("R-JSON-DISPATCH")
def r_json_dispatch(E):
    pm = E.pm
    res = RuleResult("R-JSON-DISPATCH", "model code never dispatches on a value class that the JSON loader does not "
                                        "rebuild: the loader recreates every value as the class it names (the Source* "
                                        "input classes come back as their base classes), so a test on a class it never "
                                        "constructs answers differently on a model and on its reloaded copy")
    from ..astutil import nodes_through_helpers
    rel, fn = pm.find_function("api_utils/json_to_system.py", "json_to_explainable_object")
    explainable = {cn for cn in pm.classes if "ExplainableObject" in pm.mro(cn)}
    built = {c.func.id for c in nodes_through_helpers(fn, find_function=pm.package_function_finder())
             if isinstance(c, ast.Call) and isinstance(c.func, ast.Name) and c.func.id in explainable}
    if len(built) < 3:
        # the reader may be a table of small reader functions: whatever the loader module constructs
        mod_tree = next(t for m, (r, t, _) in pm.modules.items() if r == rel)
        built = {c.func.id for c in ast.walk(mod_tree) if isinstance(c, ast.Call) and isinstance(c.func, ast.Name)
                 and c.func.id in explainable}
    if len(built) < 3:
        # … or a table whose rows name the class to build: (predicate, value reader, ExplainableQuantity)
        built |= {x.id for x in ast.walk(mod_tree) if isinstance(x, ast.Name) and isinstance(x.ctx, ast.Load)
                  and x.id in explainable and isinstance(getattr(x, "_parent", None), (ast.Tuple, ast.List))}
    if len(built) < 3:
        raise AnalysisError(f"R-JSON-DISPATCH: the loader constructs only {sorted(built)}")
    # classes an original model can hold but a reloaded one cannot: proper subclasses of a rebuilt class, never rebuilt
    lost = {cn for cn in explainable - built if any(b in built for b in pm.mro(cn)[1:])}

    def tested_classes(n):
        if isinstance(n, ast.Call) and isinstance(n.func, ast.Name) and n.func.id in ("isinstance", "issubclass") \
                and len(n.args) == 2:
            k = n.args[1]
            return [x.id for x in (k.elts if isinstance(k, ast.Tuple) else [k]) if isinstance(x, ast.Name)]
        if isinstance(n, ast.Compare) and len(n.ops) == 1 and isinstance(n.ops[0], (ast.Eq, ast.NotEq, ast.Is, ast.IsNot)):
            sides = [n.left, n.comparators[0]]
            if any((isinstance(s, ast.Call) and isinstance(s.func, ast.Name) and s.func.id == "type")
                   or (isinstance(s, ast.Attribute) and s.attr == "__class__") for s in sides):
                return [s.id for s in sides if isinstance(s, ast.Name)]
        return []
    for cn in sorted(pm.classes):
        if not pm.is_model(cn):
            continue
        for m in pm.own_methods(cn):
            if m.name == "__init__":          # not run when a model is reloaded
                continue
            for n in ast.walk(m):
                ks = tested_classes(n)
                if not ks:
                    continue
                res.instances += 1
                for k in ks:
                    if k in lost:
                        base = next(b for b in pm.mro(k)[1:] if b in built)
                        res.findings.append(Finding(
                            "R-JSON-DISPATCH", f"{cn}.{m.name} tests for {k}",
                            f"{cn}.{m.name} decides on `{norm(n)[:70]}`: json_to_explainable_object rebuilds such a value as "
                            f"{base} (it never constructs {k}), so the test holds on the original model and fails on the "
                            f"reloaded one — the reloaded system computes other results from the same inputs",
                            pm.path_of(cn), n.lineno, f"{cn}.{m.name}"))
    res.samples = [{"rebuilt_by_the_loader": sorted(built), "never_rebuilt": sorted(lost)}]
    res.floor = 5
    return res


# ---------------------------------------------------------------------------------------------- R-JSON-WALK (C13)
@rule("R-JSON-WALK")
def r_json_walk(E):
    pm = E.pm
    res = RuleResult("R-JSON-WALK", "the walk that decides which objects are saved follows links only — a model object, or a "
                                    "list whose elements are model objects — or skips the attributes the writer skips; it "
                                    "never descends into nested containers: the bookkeeping attributes excluded from the "
                                    "update logic (System.all_changes / previous_change: lists of [old, new] pairs) hold "
                                    "objects that edits removed from the system")
    from ..astutil import nodes_through_helpers
    rel, fn = pm.find_function("api_utils/system_to_json.py", "recursively_write_json_dict")
    finder = pm.function_finder(rel)
    # bookkeeping attributes that can hold model objects without being links: excluded names initialised to a container
    # / None in a constructor
    book = set()
    for c in pm.ALL + ["System"]:
        if c not in pm.classes:
            continue
        for a in pm.no_update_attrs(c):
            ai = pm.init_attrs(c).get(a)
            if ai is not None and isinstance(ai.node.value, (ast.List, ast.Dict)) or (
                    ai is not None and isinstance(ai.node.value, ast.Constant) and ai.node.value.value is None):
                book.add(a)
    book -= {"name", "id"}
    res.instances += 1
    if not book:
        res.samples.append({"bookkeeping_attributes": []})
        res.floor = 1
        return res
    nodes = nodes_through_helpers(fn, find_function=finder, depth=3)
    filters_names = any(isinstance(n, ast.Attribute) and n.attr == "attributes_that_shouldnt_trigger_update_logic" for n in nodes) \
        or any(isinstance(n, ast.Constant) and n.value in book for n in nodes)
    # deep descent: a helper of the walk that calls itself on the elements / keys of what it was given
    deep = None
    helpers = {fn.name: fn}
    for n in ast.walk(fn):
        if isinstance(n, ast.Name) and finder(n.id) is not None:
            helpers[n.id] = finder(n.id)
    for h in list(helpers.values()):
        for n in ast.walk(h):
            if isinstance(n, ast.Name) and finder(n.id) is not None:
                helpers.setdefault(n.id, finder(n.id))
    for name, h in helpers.items():
        if h is fn:
            continue
        for c in ast.walk(h):
            if isinstance(c, ast.Call) and isinstance(c.func, ast.Name) and c.func.id == name:
                deep = (h, c)
    res.instances += 1
    if deep is not None and not filters_names:
        h, c = deep
        res.findings.append(Finding(
            "R-JSON-WALK", f"{h.name} descends into nested containers",
            f"{h.name} (used by recursively_write_json_dict to find the objects to save) calls itself on the elements of "
            f"the containers it meets (`{norm(c)[:60]}`) and no attribute is skipped by name: it reaches "
            f"{sorted(book)[:4]}, whose nested [old, new] pairs hold objects that edits removed from the system — they are "
            f"saved, reloaded as orphans and dropped by the next export", rel, c.lineno, h.name))
    res.samples.append({"bookkeeping_attributes": sorted(book), "walk_filters_by_name": filters_names,
                        "recursive_container_helper": deep[0].name if deep else None})
    res.floor = 2
    return res


# ---------------------------------------------------------------------------------------------- R-JSON-DEFAULTS (C13)
def _guaranteed_keys(name, fn):
    """keys that the local dict `name` of function fn certainly has: those of its literal and those stored by
    top-level statements of the function body (not under a condition)"""
    keys = set()
    for st in fn.body:
        if isinstance(st, ast.Assign) and any(isinstance(t, ast.Name) and t.id == name for t in st.targets):
            if isinstance(st.value, ast.Dict):
                keys |= {k.value for k in st.value.keys if isinstance(k, ast.Constant)}
            elif isinstance(st.value, ast.Call) and isinstance(st.value.func, ast.Name) and st.value.func.id == "dict":
                keys |= {k.arg for k in st.value.keywords if k.arg}
        if isinstance(st, ast.Assign):
            for t in st.targets:
                if isinstance(t, ast.Subscript) and isinstance(t.value, ast.Name) and t.value.id == name \
                        and isinstance(t.slice, ast.Constant):
                    keys.add(t.slice.value)
    return keys


@rule("R-JSON-DEFAULTS")
def r_json_defaults(E):
    pm = E.pm
    res = RuleResult("R-JSON-DEFAULTS", "where the loader rebuilds a value with a constructor that has a non-None default "
                                        "for a parameter the writer omits when it is None (source), the loader passes "
                                        "that parameter explicitly on every path: otherwise a value saved without a source "
                                        "comes back with the constructor's default source (and a changed label)")
    rel, reader = pm.find_function("api_utils/json_to_system.py", "json_to_explainable_object")
    tree = next(t for m, (r, t, _) in pm.modules.items() if r == rel)
    explainable = {cn for cn in pm.classes if "ExplainableObject" in pm.mro(cn)}
    fns = [n for n in ast.walk(tree) if isinstance(n, ast.FunctionDef)]

    def enclosing(n):
        x = getattr(n, "_parent", None)
        while x is not None and not isinstance(x, ast.FunctionDef):
            x = getattr(x, "_parent", None)
        return x
    sites = [n for n in ast.walk(tree) if isinstance(n, ast.Call) and isinstance(n.func, ast.Name) and n.func.id in explainable]
    # a reader written as a table whose rows name the constructor: the calls are those of the rows' bodies, columns
    # substituted (`build(value, **kw)` with build = SourceObject, kw = {"label": …, "source": …})
    tp = _table_reader_paths(pm, rel, reader)
    if tp is not None:
        seen_txt = {norm(c) for c in sites}
        for pi_, p_ in enumerate(tp):
            for st in p_.stmts:
                for n in ast.walk(st):
                    if isinstance(n, ast.Call) and isinstance(n.func, ast.Name) and n.func.id in explainable \
                            and norm(n) not in seen_txt and (pi_, norm(n)) not in seen_txt:
                        seen_txt.add((pi_, norm(n)))      # (one site per row, even when two rows read the same)
                        if not hasattr(n, "lineno"):
                            n.lineno = reader.lineno
                        sites.append(n)
    for c in sites:
        owner, ini = pm.find_method(c.func.id, "__init__")
        if ini is None:
            continue
        ps = [a.arg for a in ini.args.args][1:]
        ds = ini.args.defaults
        defaults = dict(zip(ps[len(ps) - len(ds):], ds))
        risky = [p_ for p_, d in defaults.items() if p_ == "source" and not (isinstance(d, ast.Constant) and d.value is None)]
        for p_ in risky:
            res.instances += 1
            bound = ps.index(p_) < len([a for a in c.args if not isinstance(a, ast.Starred)]) or any(k.arg == p_ for k in c.keywords)
            star = [k.value for k in c.keywords if k.arg is None]
            undecided = False
            if not bound and star:
                f = enclosing(c)
                for sv in star:
                    if not isinstance(sv, ast.Name) or f is None:
                        undecided = True
                        continue
                    if f.args.kwarg is not None and f.args.kwarg.arg == sv.id:
                        # **kwargs of the enclosing function: what every call in the module that forwards a ** dict
                        # guarantees (the callee may be reached through a table, so every such call counts)
                        sets = []
                        for g in fns:
                            for c2 in [n for n in ast.walk(g) if isinstance(n, ast.Call)]:
                                for k2 in c2.keywords:
                                    if k2.arg is None and isinstance(k2.value, ast.Name) and enclosing(c2) is g \
                                            and not (g.args.kwarg is not None and g.args.kwarg.arg == k2.value.id):
                                        sets.append(_guaranteed_keys(k2.value.id, g))
                        if sets and all(p_ in s_ for s_ in sets):
                            bound = True
                        elif not sets:
                            undecided = True
                    elif p_ in _guaranteed_keys(sv.id, f):
                        bound = True
            if undecided and not bound:
                res.undecided.append(f"{c.func.id}(...) in the loader: cannot tell whether `{p_}` is passed (** of an unknown dict)")
            elif not bound:
                f = enclosing(c)
                res.findings.append(Finding(
                    "R-JSON-DEFAULTS", f"{c.func.id} rebuilt without {p_}",
                    f"the loader builds `{norm(c)[:70]}` without passing `{p_}` on every path, and {c.func.id}.__init__ "
                    f"defaults it to `{norm(defaults[p_])}`: the writer omits the entry when the value has no {p_}, so such a "
                    f"value comes back with that default (and ' from …' appended to its label), and a second export "
                    f"differs from the first", rel, c.lineno, f.name if f is not None else "<module>"))
            elif len(res.samples) < 4:
                res.samples.append({"constructor": norm(c)[:70], "parameter": p_, "verdict": "passed explicitly"})
    res.floor = 2
    return res
