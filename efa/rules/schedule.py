"""Schedule and table rules: R-CALC, R-SLOT, R-ORDER, R-REACH, R-ACYC, R-WRITE (DESIGN §5.A)."""
import ast

from . import rule
from ..frontend import AnalysisError, norm, is_abstract
from ..report import Finding, RuleResult


def _undecided(E, res, keys=None):
    res.undecided += E.unknowns(keys)


@rule("R-CALC")
def r_calc(E):
    pm = E.pm
    res = RuleResult("R-CALC", "every name in calculated_attributes has an update_<name> rule and a constructor "
                               "placeholder; every update_<name> defined along the MRO is listed")
    for c in pm.ALL:
        ca = pm.calc(c)
        path = pm.path_of(c)
        if len(set(ca)) != len(ca):
            dup = sorted({a for a in ca if ca.count(a) > 1})
            res.findings.append(Finding("R-CALC", f"{c}.calculated_attributes duplicate {dup}",
                                        f"{c}.calculated_attributes lists {dup} more than once", path))
        for a in ca:
            res.instances += 1
            owner, fn = pm.find_method(c, "update_" + a)
            if fn is None or is_abstract(fn):
                res.findings.append(Finding(
                    "R-CALC", f"{c}.{a} no-rule",
                    f"{c}.calculated_attributes lists '{a}' but no concrete update_{a} is defined along its MRO: "
                    f"the first recomputation raises", path, pm.classes[c].node.lineno, f"{c}.calculated_attributes"))
            if a not in pm.init_attrs(c):
                res.findings.append(Finding(
                    "R-CALC", f"{c}.{a} no-placeholder",
                    f"{c}.calculated_attributes lists '{a}' but no constructor along its MRO assigns self.{a}",
                    path, pm.classes[c].node.lineno, f"{c}.__init__"))
        # dead rules: update_<x> reachable through the MRO but not listed
        seen = set()
        for k in pm.mro(c):
            for fn in pm.own_methods(k):
                if fn.name.startswith("update_") and fn.name not in seen:
                    seen.add(fn.name)
                    res.instances += 1
                    a = fn.name[len("update_"):]
                    # (a method that needs an argument is not a rule — rules are called as update_<attr>() — but a step
                    # that rules share: update_occupied_resource_per_instance(resource))
                    required = len(fn.args.args) - 1 - len(fn.args.defaults)
                    if a not in ca and required > 0:
                        continue
                    if a not in ca:
                        o2, f2 = pm.find_method(c, fn.name)
                        if f2 is not None and is_abstract(f2):
                            continue
                        res.findings.append(Finding(
                            "R-CALC", f"{c}.{a} unlisted-rule",
                            f"{k}.{fn.name} is defined but '{a}' is not in {c}.calculated_attributes: the rule never "
                            f"runs and self.{a} keeps its constructor value", pm.path_of(k), fn.lineno, f"{k}.{fn.name}"))
    res.samples = [{"class": c, "calculated_attributes": pm.calc(c)} for c in ("UsagePattern", "GPUServer")
                   if c in pm.ALL]
    res.floor = 111
    return res


@rule("R-SLOT")
def r_slot(E):
    pm = E.pm
    res = RuleResult("R-SLOT", "every public class is a subclass of exactly one entry of CANONICAL_COMPUTATION_ORDER")
    rel, _ = pm.module_tree("core/all_classes_in_order.py")
    for c in pm.ALL:
        res.instances += 1
        s = pm.slots(c)
        if len(s) != 1:
            res.findings.append(Finding(
                "R-SLOT", f"{c} in {len(s)} slots",
                f"{c} matches {len(s)} entries of CANONICAL_COMPUTATION_ORDER "
                f"({[pm.ORDER[i] for i in s]}): optimize_mod_objs_computation_chain "
                f"{'drops' if not s else 'duplicates'} its objects", rel))
    if len(set(pm.ALL)) != len(pm.ALL):
        res.findings.append(Finding("R-SLOT", "ALL_EFOOTPRINT_CLASSES duplicate", "a class is listed twice", rel))
    if pm.ORDER and pm.ORDER[-1] != "System":
        res.findings.append(Finding("R-SLOT", "System not last slot",
                                    "System must be the last slot: it reads every other object's results", rel))
    res.samples = [{"class": c, "slot": pm.ORDER[pm.slots(c)[0]] if pm.slots(c) else None} for c in pm.ALL[:6]]
    res.floor = 18
    return res


@rule("R-ORDER")
def r_order(E):
    pm = E.pm
    res = RuleResult("R-ORDER", "def-before-use in the schedule: a rule reads a calculated attribute only if it is "
                                "computed earlier (same object: earlier in calculated_attributes; other object: "
                                "strictly earlier slot of CANONICAL_COMPUTATION_ORDER)")
    for (c, x), cx in E.contexts().items():
        if cx is None:
            continue
        ca = pm.calc(c)
        owner, fn = pm.find_method(c, "update_" + x)
        path = pm.path_of(owner)
        for (d, y, is_self) in sorted(cx.reads):
            if not E.is_calc(d, y):
                continue
            res.instances += 1
            if is_self:
                if y == x:
                    continue   # reported by R-ACYC
                if ca.index(y) > ca.index(x):
                    res.findings.append(Finding(
                        "R-ORDER", f"{c}.update_{x} reads self.{y}",
                        f"{c}.update_{x} reads self.{y}, which {c}.calculated_attributes computes later "
                        f"(position {ca.index(y)} > {ca.index(x)}): it sees the previous pass's value",
                        path, fn.lineno, f"{owner}.update_{x}", {"clauses": ["all"] + (["usage"] if "core/usage" in path else [])}))
            else:
                if c == "System":
                    continue
                sd, sc = pm.slot(d), pm.slot(c)
                if sd >= sc:
                    res.findings.append(Finding(
                        "R-ORDER", f"{c}.update_{x} reads {d}.{y}",
                        f"{c}.update_{x} reads {d}.{y} of another object, but slot {pm.ORDER[sd]} is not before slot "
                        f"{pm.ORDER[sc]} in CANONICAL_COMPUTATION_ORDER: after an edit it reads a stale value",
                        path, fn.lineno, f"{owner}.update_{x}", {"clauses": ["all"] + (["usage"] if "core/usage" in path else [])}))
            if len(res.samples) < 6:
                res.samples.append({"context": f"{c}.update_{x}", "reads": f"{d}.{y}", "same_object": is_self,
                                    "verdict": "ordered"})
    _undecided(E, res)
    res.floor = 140
    return res


def chain_start_roles(pm):
    """Which objects' chains does a link edit recompute? Read from the two chain builders in ModelingObject."""
    rel, f1 = pm.find_function("abstract_modeling_classes/modeling_object.py",
                               "ModelingObject.compute_mod_objs_computation_chain_from_old_and_new_modeling_objs")
    rel, f2 = pm.find_function("abstract_modeling_classes/modeling_object.py",
                               "ModelingObject.compute_mod_objs_computation_chain_from_old_and_new_lists")

    def roles(fn):
        out = set()
        for n in ast.walk(fn):
            if isinstance(n, ast.Attribute) and n.attr == "mod_objs_computation_chain" and isinstance(n.value, ast.Name):
                out.add(n.value.id)
        return out
    return roles(f1), roles(f2)


@rule("R-REACH")
def r_reach(E):
    pm = E.pm
    res = RuleResult("R-REACH", "class-level reachability: for every link a rule traverses and every other object's "
                                "calculated attribute it reads, the rule's class is reachable (through "
                                "modeling_objects_whose_attributes_depend_directly_on_me) from the objects whose chains "
                                "an edit of that link / a recomputation of that object starts")
    one_roles, list_roles = chain_start_roles(pm)
    links = pm.public_links()
    G = E.G()
    res.undecided += E._G_unknown

    def starts(K, l):
        kind, tg = links[(K, l)]
        roles = one_roles if kind == "one" else list_roles
        s = set()
        if "self" in roles:
            s.add(K)
        if kind == "one":
            if "input_value" in roles or "old_value" in roles:
                s |= set(tg)
        else:
            if "obj" in roles:
                s |= set(tg)
        return s

    def reachable_from(ss):
        out = set()
        for s in ss:
            out |= E.reach(s)
        return out

    for (c, x), cx in E.contexts().items():
        if cx is None or c == "System":
            continue
        owner, fn = pm.find_method(c, "update_" + x)
        path = pm.path_of(owner)
        for (K, l) in sorted(cx.links):
            if l == "<containers>":
                for (K2, l2), (kind, tg) in sorted(links.items()):
                    if K not in tg:
                        continue
                    res.instances += 1
                    if c not in reachable_from(starts(K2, l2)):
                        res.findings.append(Finding(
                            "R-REACH", f"{c}.update_{x} over {K2}.{l2} (backward from {K})",
                            f"{c}.update_{x} looks up the holders of a {K} (modeling_obj_containers), which changes "
                            f"when {K2}.{l2} is edited, but no chain started by that edit reaches {c}: stale value",
                            path, fn.lineno, f"{owner}.update_{x}"))
            elif (K, l) in links:
                res.instances += 1
                if c not in reachable_from(starts(K, l)):
                    res.findings.append(Finding(
                        "R-REACH", f"{c}.update_{x} over {K}.{l} (forward)",
                        f"{c}.update_{x} traverses link {K}.{l}; re-pointing it recomputes the chains of "
                        f"{sorted(starts(K, l))} only, none of which reaches {c}: {c}.{x} keeps its old value",
                        path, fn.lineno, f"{owner}.update_{x}"))
                elif len(res.samples) < 4:
                    res.samples.append({"context": f"{c}.update_{x}", "link": f"{K}.{l}",
                                        "chains_started_by_edit": sorted(starts(K, l)), "verdict": "reachable"})
        for (d, y, is_self) in sorted(cx.reads):
            if is_self or not E.is_calc(d, y):
                continue
            res.instances += 1
            if c not in E.reach(d):
                res.findings.append(Finding(
                    "R-REACH", f"{c}.update_{x} reads {d}.{y}",
                    f"{c}.update_{x} reads {d}.{y} but {c} is not reachable from {d} in the class-level dependency "
                    f"graph: the object chain never schedules {c} after a {d} was recomputed",
                    path, fn.lineno, f"{owner}.update_{x}"))
            elif len(res.samples) < 8:
                res.samples.append({"context": f"{c}.update_{x}", "reads": f"{d}.{y}", "verdict": f"{d} reaches {c}"})
    # holders of holders: a rule of class c that looks up its own holders T (modeling_obj_containers) *and their*
    # holders is affected when a link is re-pointed to a T that was not linked before. That T's chain is built before
    # the change is applied, when its reverse lookups are still empty: c is in it only if T names it itself, through
    # the forward link T.l -> c, in modeling_objects_whose_attributes_depend_directly_on_me
    def definite_successors(T):
        owner, f = pm.find_method(T, "modeling_objects_whose_attributes_depend_directly_on_me")
        if f is None:
            return set()
        per_return = []
        for r in [n for n in ast.walk(f) if isinstance(n, ast.Return) and n.value is not None]:
            names = set()
            todo = [r.value]
            while todo:
                e = todo.pop()
                if isinstance(e, ast.BinOp) and isinstance(e.op, ast.Add):
                    todo += [e.left, e.right]
                elif isinstance(e, ast.List):
                    for el in e.elts:
                        if isinstance(el, ast.Attribute) and isinstance(el.value, ast.Name) and el.value.id == "self":
                            names.add(el.attr)
                elif isinstance(e, ast.Attribute) and isinstance(e.value, ast.Call) and isinstance(e.value.func, ast.Name) \
                        and e.value.func.id == "super" and e.attr == f.name:
                    k2, f2 = pm.find_method(T, f.name, after=owner)
                    if f2 is not None:
                        todo += [x.value for x in ast.walk(f2) if isinstance(x, ast.Return) and x.value is not None]
            per_return.append(names)
        return set.intersection(*per_return) if per_return else set()

    for (c, x), cx in E.contexts().items():
        if cx is None or c == "System":
            continue
        if (c, "<containers>") not in {(k, l) for (k, l) in cx.links if l == "<containers>" and k in pm.mro(c) + [c]} \
                and not any(l == "<containers>" and c in pm.subclasses(k) + [k] for (k, l) in cx.links):
            continue
        owner, fn = pm.find_method(c, "update_" + x)
        for (T, l) in sorted(cx.links):
            if l != "<containers>" or T not in pm.ALL or T == c:
                continue
            # T holds c through a single forward link, and is itself the target of some single link (can be re-pointed)
            fwd = [a for (K, a), (kind, tg) in links.items() if K == T and kind == "one" and c in tg]
            repointable = [(K2, l2) for (K2, l2), (kind, tg) in links.items() if kind == "one" and T in tg]
            if not fwd or not repointable:
                continue
            res.instances += 1
            if not (set(fwd) & definite_successors(T)):
                K2, l2 = repointable[0]
                res.findings.append(Finding(
                    "R-REACH", f"{c}.update_{x} over holders of {T} (new target)",
                    f"{c}.update_{x} looks up the {T} objects that hold it and then *their* holders; when {K2}.{l2} is "
                    f"re-pointed to a {T} that had no holder yet, that {T}'s recomputation chain is built before the "
                    f"change and reaches the {c} only if {T}.modeling_objects_whose_attributes_depend_directly_on_me "
                    f"names self.{fwd[0]} itself — it does not, so the {c} that receives the new load is not recomputed",
                    pm.path_of(owner), fn.lineno, f"{owner}.update_{x}"))
    res.breakdown = {"G": {k: sorted(v) for k, v in G.items()}, "one_link_chain_roles": sorted(one_roles),
                     "list_link_chain_roles": sorted(list_roles)}
    _undecided(E, res)
    res.floor = 150
    return res


@rule("R-ACYC")
def r_acyc(E):
    pm = E.pm
    res = RuleResult("R-ACYC", "the class-level attribute graph is acyclic and no rule reads the attribute it writes")
    edges = {}
    for (c, x), cx in E.contexts().items():
        if cx is None:
            continue
        edges[(c, x)] = {(d, y) for (d, y, s) in cx.reads if E.is_calc(d, y)}
        res.instances += 1
        owner, fn = pm.find_method(c, "update_" + x)
        # (a read that reaches neither the value written nor the tests it is written under — the previous value carried along
        # in a record as a token and replaced before use — does not make the result depend on the previous value)
        reaches = any((c, x, True) in (s_.valdeps | s_.ctl | (s_.parents or frozenset())) or any(
            r_[:2] == (c, x) for r_ in (s_.valdeps | s_.ctl)) for s_ in cx.writes.get(x, []))
        if (c, x, True) in cx.reads and (reaches or not cx.writes.get(x)):
            res.findings.append(Finding(
                "R-ACYC", f"{c}.update_{x} reads self.{x}",
                f"{c}.update_{x} reads the attribute it computes: the result depends on the previous value, so a "
                f"second pass differs from the first", pm.path_of(owner), fn.lineno, f"{owner}.update_{x}"))
    # cycle detection (iterative DFS) over calculated attributes
    color = {}
    cycles = []

    def dfs(start):
        stack = [(start, iter(sorted(edges.get(start, ()))))]
        color[start] = 1
        pathl = [start]
        while stack:
            node, it = stack[-1]
            for nxt in it:
                if color.get(nxt, 0) == 0:
                    color[nxt] = 1
                    pathl.append(nxt)
                    stack.append((nxt, iter(sorted(edges.get(nxt, ())))))
                    break
                if color.get(nxt) == 1:
                    cycles.append(pathl[pathl.index(nxt):] + [nxt])
            else:
                color[node] = 2
                pathl.pop()
                stack.pop()
    for n in sorted(edges):
        if color.get(n, 0) == 0:
            dfs(n)
    for cyc in cycles:
        if len(cyc) == 2:
            continue   # self loop, already reported
        txt = " -> ".join(f"{a}.{b}" for a, b in cyc)
        res.findings.append(Finding("R-ACYC", f"cycle {txt}", f"calculated attributes depend on each other in a cycle: {txt}",
                                    pm.path_of(cyc[0][0])))
    res.breakdown = {"nodes": len(edges), "edges": sum(len(v) for v in edges.values())}
    res.samples = [{"attribute": f"{c}.{x}", "reads_calculated": sorted(f"{d}.{y}" for d, y in edges[(c, x)])}
                   for (c, x) in list(sorted(edges))[:4]]
    _undecided(E, res)
    res.floor = 111
    return res


def _token_memo(pm, cx, c, x, attr, site):
    """`self.<attr>` written by update_<x> is a record of by-products stamped with the object just assigned to self.<x>
    (`rec._replace(tok=self.<x>)` / `Rec(self.<x>, …)`), everything else in it depends on nothing the value of <x> does not
    depend on, and every reader of self.<attr> in the class discards it unless `<memo>.tok is self.<x>`: returns a text
    naming the token, else None."""
    from ..interp import deep_deps
    v = site.value
    if v is None or v.k != "rec" or not v.fields:
        return None
    w = site.node
    if not isinstance(w, ast.Assign):
        return None
    me = f"self.{x}"
    tok = None
    val = w.value
    if isinstance(val, ast.Call) and isinstance(val.func, ast.Attribute) and val.func.attr == "_replace":
        hits = [k.arg for k in val.keywords if k.arg and norm(k.value) == me]
        tok = hits[0] if len(hits) == 1 else None
    elif isinstance(val, ast.Call):
        from ..interp import Interp  # noqa: F401  (record field order comes from the interpreter's record table)
        names = list(v.fields)
        hits = [names[i] for i, a_ in enumerate(val.args) if i < len(names) and norm(a_) == me] + [
            k.arg for k in val.keywords if k.arg and norm(k.value) == me]
        tok = hits[0] if len(hits) == 1 else None
    if tok is None or tok not in v.fields:
        return None
    xsites = cx.writes.get(x, [])
    if not xsites or not all(getattr(s_.node, "lineno", 0) < getattr(w, "lineno", 0) for s_ in xsites):
        return None
    allowed = set()
    for s_ in xsites:
        allowed |= set(s_.valdeps) | set(s_.ctl)
    for fld, fv in v.fields.items():
        if fld == tok:
            continue
        extra = {r_ for r_ in deep_deps(fv) if r_ not in allowed and r_[:2] != (c, x)}
        if extra:
            return None
    # the readers
    readers = 0
    for k in pm.classes:
        if c not in pm.mro(k) and k not in pm.mro(c):
            continue
        for m in pm.own_methods(k):
            loads = [n for n in ast.walk(m) if (isinstance(n, ast.Attribute) and n.attr == attr and isinstance(n.ctx, ast.Load)
                                               and norm(n.value) == "self")
                     or (isinstance(n, ast.Call) and isinstance(n.func, ast.Name) and n.func.id == "getattr" and len(n.args) >= 2
                         and norm(n.args[0]) == "self" and isinstance(n.args[1], ast.Constant) and n.args[1].value == attr)]
            if not loads:
                continue
            if len(loads) != 1:
                return None
            ld = loads[0]
            par = getattr(ld, "_parent", None)
            if not (isinstance(par, ast.Assign) and par.value is ld and len(par.targets) == 1 and isinstance(par.targets[0], ast.Name)):
                return None
            mname = par.targets[0].id
            # the statement right after: `if m is None or m.tok is not self.x: m = <recomputed>`
            body = None
            for n in ast.walk(m):
                for fld_ in ("body", "orelse"):
                    lst = getattr(n, fld_, None)
                    if isinstance(lst, list) and any(y is par for y in lst):
                        body = lst
            if body is None:
                return None
            i = next(j for j, y in enumerate(body) if y is par)
            if i + 1 >= len(body) or not isinstance(body[i + 1], ast.If) or body[i + 1].orelse:
                return None
            g = body[i + 1]
            atoms = g.test.values if isinstance(g.test, ast.BoolOp) and isinstance(g.test.op, ast.Or) else [g.test]
            ident = any(isinstance(t_, ast.Compare) and len(t_.ops) == 1 and isinstance(t_.ops[0], ast.IsNot)
                        and {norm(t_.left), norm(t_.comparators[0])} == {f"{mname}.{tok}", me} for t_ in atoms)
            others_ok = all((isinstance(t_, ast.Compare) and len(t_.ops) == 1 and isinstance(t_.ops[0], (ast.Is, ast.IsNot))
                             and norm(t_.left) in (mname, f"{mname}.{tok}")) for t_ in atoms)
            rebinds = [st for st in g.body if isinstance(st, ast.Assign) and len(st.targets) == 1
                       and isinstance(st.targets[0], ast.Name) and st.targets[0].id == mname]
            if not (ident and others_ok and len(rebinds) == 1 and len(g.body) == 1):
                return None
            # no use of the memo before the guard, and nothing else in the method binds it
            if any(isinstance(n, ast.Name) and n.id == mname and isinstance(n.ctx, ast.Store) and n is not par.targets[0]
                   and n is not rebinds[0].targets[0] for n in ast.walk(m)):
                return None
            readers += 1
    if not readers:
        return None
    return f"{tok} is self.{x}"


def _keyed_memo(pm, site, attr):
    """the write `self.<attr> = (key, value)` of `site` read as a keyed memo: (text of the key, [inputs read under the guard
    that the key does not name]) when the function has the shape
        key = <K>; mk, v = self.<attr>; if mk != key: v = <computed>; self.<attr> = (key, v); return v
    None when it has not."""
    try:
        cn, mn = site.func.split(".", 1)
        _owner, fn = pm.find_method(cn, mn)
    except Exception:
        return None
    if fn is None:
        return None
    from ..astutil import single_assignments
    w = site.node
    # (the site's node may belong to an inlined copy: find the statement of the same text in the function)
    cands = [st for st in ast.walk(fn) if isinstance(st, ast.Assign) and norm(st) == norm(w)]
    if len(cands) != 1:
        return None
    w = cands[0]
    if not (isinstance(w.value, ast.Tuple) and len(w.value.elts) == 2 and len(w.targets) == 1):
        return None
    sa = single_assignments(fn)
    key_e = w.value.elts[0]
    key_text = norm(key_e)
    K = sa.get(key_e.id) if isinstance(key_e, ast.Name) else key_e
    if K is None:
        return None
    # the names the stored key is unpacked into
    mks = set()
    for st in ast.walk(fn):
        if isinstance(st, ast.Assign) and len(st.targets) == 1 and isinstance(st.targets[0], ast.Tuple) \
                and len(st.targets[0].elts) == 2 and norm(st.value) == f"self.{attr}" and isinstance(st.targets[0].elts[0], ast.Name):
            mks.add(st.targets[0].elts[0].id)
    mks.add(f"self.{attr}[0]")
    # the guard: the innermost `if` that holds the write, testing stored key against key
    guard, arm = None, None
    for n in ast.walk(fn):
        if isinstance(n, ast.If):
            for blk in (n.body, n.orelse):
                if any(x is w for b in blk for x in ast.walk(b)):
                    guard, arm = n, blk
    if guard is None:
        return None
    t = guard.test
    neg = False
    if isinstance(t, ast.UnaryOp) and isinstance(t.op, ast.Not):
        t, neg = t.operand, True
    if not (isinstance(t, ast.Compare) and len(t.ops) == 1 and isinstance(t.ops[0], (ast.Eq, ast.NotEq))):
        return None
    sides = {norm(t.left), norm(t.comparators[0])}
    if not (key_text in sides and (sides - {key_text}) <= mks and len(sides) == 2):
        return None
    differs = isinstance(t.ops[0], ast.NotEq) != neg
    if (arm is guard.body) != differs:
        return None      # the write sits in the arm where the keys are equal: not a refresh

    def reads(node):
        out = set()
        for x in ast.walk(node):
            if isinstance(x, ast.Attribute):
                b = x
                while isinstance(b, ast.Attribute):
                    b = b.value
                par = getattr(x, "_parent", None)
                if isinstance(b, ast.Name) and b.id == "self" and not (isinstance(par, ast.Attribute) and par.value is x):
                    out.add(norm(x))
        return out
    for n in ast.walk(fn):
        for ch in ast.iter_child_nodes(n):
            ch._parent = n
    named = reads(K)
    under = set()
    for b in arm:
        under |= reads(b)
    under -= {f"self.{attr}"}
    # a call of a method on self is a read of whatever that method reads: not named by any key
    calls = {norm(c.func) + "()" for b in arm for c in ast.walk(b) if isinstance(c, ast.Call) and isinstance(c.func, ast.Attribute)
             and isinstance(c.func.value, ast.Name) and c.func.value.id == "self"}
    missing = sorted((under - named) | calls)
    return key_text if not isinstance(key_e, ast.Name) else f"{key_text} = {norm(K)}", missing


@rule("R-WRITE")
def r_write(E):
    pm = E.pm
    res = RuleResult("R-WRITE", "an update_X rule assigns, on self, only X; assigns nothing on other objects; and "
                                "stores into no frame that is (or is shared with) a model attribute")
    for (c, x), cx in E.contexts().items():
        if cx is None:
            continue
        res.instances += 1
        owner, fn = pm.find_method(c, "update_" + x)
        path = pm.path_of(owner)
        # which part of the model the rule belongs to (properties about one part claim the findings of that part)
        areas = {"clauses": ["all"] + (["infra"] if "InfraHardware" in pm.mro(c) else [])
                 + (["builder"] if "builders/" in pm.path_of(c) else [])}
        for a, sites in sorted(cx.writes.items()):
            if a != x:
                s = sites[0]
                tm = _token_memo(pm, cx, c, x, a, s)
                if tm:
                    # by-products of this very rule kept next to its result and only ever used while `self.<x>` *is* the
                    # object this rule assigned with them: nothing outlives the value they were computed with
                    if len(res.samples) < 6:
                        res.samples.append({"context": f"{c}.update_{x}", "by-product memo": f"self.{a}", "token": tm,
                                            "verdict": "used only while the token is identical to the current value"})
                    continue
                km = _keyed_memo(pm, s, a)
                if km is not None and not km[1]:
                    # a memo validated by a key that names every input the memoised value is computed from: reading it is
                    # the same as computing the value again — no state of its own
                    if len(res.samples) < 6:
                        res.samples.append({"context": f"{c}.update_{x}", "keyed memo": f"self.{a}", "key": km[0],
                                            "verdict": "the key covers every input read under it"})
                    continue
                if km is not None:
                    res.findings.append(Finding(
                        "R-WRITE", f"{c}.update_{x} writes self.{a} :: keyed memo with an incomplete key",
                        f"{c}.update_{x} serves a value out of the memo self.{a} (in {s.func}) whenever `{km[0]}` is unchanged, "
                        f"but the memoised value is also computed from {', '.join(km[1])}: after an edit of that input the "
                        f"memo still answers with the value of the previous input (hidden state between recomputations and "
                        f"between objects that share the key)", s.path, s.node.lineno, s.func, areas))
                    continue
                res.findings.append(Finding(
                    "R-WRITE", f"{c}.update_{x} writes self.{a} :: {norm(s.node)[:120]}",
                    f"{c}.update_{x} also assigns self.{a} (in {s.func}): that value has no twin in a simulation, is "
                    f"not restored by reset_values and its dependants are not in the recomputation chain",
                    s.path, s.node.lineno, s.func, areas))
        if x not in cx.writes:
            res.findings.append(Finding(
                "R-WRITE", f"{c}.update_{x} never writes self.{x}",
                f"{c}.update_{x} has no assignment to self.{x} on any path", path, fn.lineno, f"{owner}.update_{x}", areas))
        for (node, where, text) in cx.foreign_writes:
            res.findings.append(Finding(
                "R-WRITE", f"{c}.update_{x} foreign store :: {text[:120]}",
                f"{c}.update_{x} stores into another model object ({text[:80]}) in {where[1]}",
                where[0], node.lineno, where[1], areas))
        for (node, where, b) in cx.frame_stores:
            res.findings.append(Finding(
                "R-WRITE", f"{c}.update_{x} frame store :: {norm(node)[:120]}",
                f"{c}.update_{x} stores into a frame that is (or shares its data with) model attribute(s) "
                f"{sorted((r[0] + '.' + r[1]) for r in b.shares)} in {where[1]}: computing alters an input or an "
                f"already computed value", where[0], node.lineno, where[1], areas))
        if len(res.samples) < 4:
            res.samples.append({"context": f"{c}.update_{x}", "self_attributes_written": sorted(cx.writes),
                                "helpers_inlined": sorted(set(cx.calls))[:6]})
    _undecided(E, res)
    res.floor = 111
    return res
