"""R-MAG: every bare-number extraction from a unit-carrying value happens in a statically fixed unit or in a
scale-invariant context (DESIGN §4.3, §5.B). Intra-procedural, syntactic unit evaluator with an attribute-unit table."""
import ast

from . import rule
from ..frontend import AnalysisError, norm, is_property
from ..report import Finding, RuleResult

DISPLAY_FUNCS = {"__str__", "__repr__", "plot", "_round_series_values", "key_value_to_str",
                 "plot_footprints_by_category_and_object", "plot_emission_diffs", "plot_baseline_and_simulation_dfs",
                 "format_co2_amount", "display_co2_amount"}
DISPLAY_FILES = ("utils/plot_", "utils/tools.py", "utils/graph_tools.py", "utils/calculus_graph.py",
                 "utils/object_relationships_graphs.py")
EXEMPT = {
    ("ExplainableQuantity", "magnitude"): "accessor: the definition of .magnitude for explainable quantities; its uses "
                                          "are the sites this rule checks",
    ("ExplainableHourlyQuantities", "value_as_float_list"): "accessor with no caller in the package",
}
UNIT_PRESERVING = {"set_label", "copy", "abs", "ceil", "max", "min", "sum", "mean", "np_compared_with",
                   "generate_explainable_object_with_logical_dependency", "round", "cumsum"}
EQUIVARIANT_NP = {"abs", "maximum", "minimum", "negative"}
UNIT_PARAMETRIC_NP = {"ceil", "round", "floor", "rint"}


def _is_uexpr(e):
    """expression over unit-registry constants: u.kg, u.kWh / u.GB, u("GB") with a literal"""
    if isinstance(e, ast.Attribute) and isinstance(e.value, ast.Name) and e.value.id == "u":
        return True
    if isinstance(e, ast.BinOp) and isinstance(e.op, (ast.Mult, ast.Div, ast.Pow)):
        return (_is_uexpr(e.left) or isinstance(e.left, ast.Constant)) and (_is_uexpr(e.right) or isinstance(e.right, ast.Constant))
    if isinstance(e, ast.Call) and isinstance(e.func, ast.Name) and e.func.id == "u" and e.args \
            and isinstance(e.args[0], ast.Constant):
        return True
    return False


class Units:
    def __init__(self, pm):
        self.pm = pm
        self.attr_memo = {}

    def enclosing(self, n):
        fn = cls = None
        x = n
        while x is not None:
            if isinstance(x, ast.FunctionDef) and fn is None:
                fn = x
            if isinstance(x, ast.ClassDef) and cls is None:
                cls = x
            x = getattr(x, "_parent", None)
        return fn, cls

    def local_defs(self, fn, name):
        out = []
        for n in ast.walk(fn):
            if isinstance(n, ast.Assign):
                for t in n.targets:
                    if isinstance(t, ast.Name) and t.id == name:
                        out.append(n.value)
            if isinstance(n, ast.AugAssign) and isinstance(n.target, ast.Name) and n.target.id == name:
                out.append(None)      # x op= y keeps x's unit for + and -, unknown otherwise; treated as keep
        return out

    def unit_of(self, e, fn, cls, depth=0):
        """('fixed', text) | None"""
        if depth > 12 or e is None:
            return None
        U = lambda x: self.unit_of(x, fn, cls, depth + 1)
        if isinstance(e, ast.Call):
            f = e.func
            if isinstance(f, ast.Attribute):
                if f.attr == "to" and e.args:
                    if _is_uexpr(e.args[0]):
                        return ("fixed", norm(e.args[0]))
                    if norm(e.args[0]) == "self.unit":
                        return ("fixed", "self.unit")
                    # converted to the unit of a calculated attribute that its rule leaves in a fixed unit
                    # (`storage_unit = self.storage_delta.unit … .to(storage_unit).magnitude`)
                    return self.unit_named_by(e.args[0], fn, cls)
                if f.attr in UNIT_PRESERVING:
                    return U(f.value)
                if f.attr in ("reindex", "to_numpy", "shift", "fillna"):
                    return U(f.value)
            if isinstance(f, ast.Name):
                if f.id in ("copy", "round") and e.args:
                    return U(e.args[0])
                if f.id in ("ExplainableQuantity", "SourceValue") and e.args:
                    return U(e.args[0])
                if f.id in ("ExplainableHourlyQuantities", "SourceHourlyValues") and e.args:
                    return U(e.args[0])
            if isinstance(f, ast.Attribute) and isinstance(f.value, ast.Name) and f.value.id == "self" and cls is not None:
                # a method of the same class: the unit of what it returns, when every return agrees (a public helper
                # `compute_…(kind)` whose last step is `.to(u.dimensionless)`)
                owner, h = self.pm.find_method(cls.name, f.attr)
                if h is not None and h is not fn and depth < 8:
                    hc = self.pm.classes[owner].node
                    us = [self.unit_of(r.value, h, hc, depth + 1) for r in ast.walk(h)
                          if isinstance(r, ast.Return) and r.value is not None]
                    if us and all(u is not None for u in us) and len({u[1] for u in us}) == 1:
                        return us[0]
                return None
            if norm(f) in ("pd.DataFrame", "pint_pandas.PintArray"):
                for n in ast.walk(e):
                    if isinstance(n, ast.keyword) and n.arg == "dtype":
                        if _is_uexpr(n.value):
                            return ("fixed", norm(n.value))
                        if norm(n.value) == "self.unit":
                            return ("fixed", "self.unit")
                return None
            return None
        if isinstance(e, ast.BinOp):
            if isinstance(e.op, ast.Mult):
                # <number> * u.X
                if _is_uexpr(e.right) and not _is_uexpr(e.left):
                    return ("fixed", norm(e.right))
                if _is_uexpr(e.left) and not _is_uexpr(e.right):
                    return ("fixed", norm(e.left))
                l, r = U(e.left), U(e.right)
                if l and r:
                    return ("fixed", f"({l[1]})*({r[1]})")
                return None
            if isinstance(e.op, ast.Div):
                l, r = U(e.left), U(e.right)
                if l and r:
                    return ("fixed", f"({l[1]})/({r[1]})")
                return None
            if isinstance(e.op, (ast.Add, ast.Sub)):
                return U(e.left)
            return None
        if isinstance(e, ast.UnaryOp):
            return U(e.operand)
        if isinstance(e, ast.Subscript):
            return U(e.value)       # df["value"], series[...] keep the unit
        if isinstance(e, ast.Attribute):
            if e.attr in ("value", "values", "pint", "data", "iloc", "loc"):
                return U(e.value)
            if isinstance(e.value, ast.Name) and e.value.id == "self" and cls is not None:
                return self.attr_unit(cls.name, e.attr)
            return None
        if isinstance(e, ast.Name) and fn is not None:
            # the definition that reaches this use, when it sits unconditionally before it in the same block
            st = e
            while st is not None and not isinstance(st, ast.stmt):
                st = getattr(st, "_parent", None)
            if st is not None:
                from ..astutil import reaching_value
                rv = reaching_value(st, e.id)
                if rv is not None and not any(isinstance(x, ast.Name) and x.id == e.id for x in ast.walk(rv)):
                    return U(rv)
                if rv is not None:
                    # x = x.to(u.kg)…: the unit is that of the right-hand side whatever x was before
                    r = self.unit_of_rebinding(rv, e.id, fn, cls, depth + 1)
                    if r is not None:
                        return r
            defs = self.local_defs(fn, e.id)
            real = [d for d in defs if d is not None]
            if not real:
                return None
            us = [U(d) for d in real]
            if all(u is not None for u in us) and len({u[1] for u in us}) == 1:
                return us[0]
            return None
        return None

    def unit_named_by(self, e, fn, cls):
        """the fixed unit that a unit-valued expression stands for: `self.<calculated attribute>.unit` (through a local
        alias) when the attribute's rule leaves it in a statically fixed unit; None otherwise"""
        from ..astutil import fully_expanded
        try:
            x = fully_expanded(e, fn)
        except Exception:
            x = e
        if isinstance(x, ast.Attribute) and x.attr in ("unit", "units") and isinstance(x.value, ast.Attribute) \
                and isinstance(x.value.value, ast.Name) and x.value.value.id == "self" and cls is not None:
            r = self.attr_unit(cls.name, x.value.attr)
            if r is not None and r[1] != "self.unit":
                return r
        return None

    def unit_of_rebinding(self, rv, name, fn, cls, depth):
        """unit of `name = <rv mentioning name>` when rv fixes the unit by itself (a `.to(<unit>)` on the way)"""
        e = rv
        while isinstance(e, ast.Call) and isinstance(e.func, ast.Attribute):
            if e.func.attr == "to" and e.args and (_is_uexpr(e.args[0])):
                return ("fixed", norm(e.args[0]))
            if e.func.attr in UNIT_PRESERVING:
                e = e.func.value
                continue
            break
        return None

    def attr_unit(self, cn, attr):
        """unit a calculated attribute (or a property) of class cn is left in by its rule, over cn and its public
        subclasses; None if any of them leaves it in a unit that is not statically fixed"""
        key = (cn, attr)
        if key in self.attr_memo:
            return self.attr_memo[key]
        self.attr_memo[key] = None
        pm = self.pm
        classes = [c for c in ([cn] + pm.subclasses(cn)) if c in pm.ALL] or [cn]
        us = []
        for c in classes:
            owner, prop = pm.find_method(c, attr)
            if prop is not None and is_property(prop):
                rets = [r.value for r in ast.walk(prop) if isinstance(r, ast.Return) and r.value is not None]
                us += [self.unit_of(r, prop, pm.classes[owner].node) for r in rets]
                continue
            if attr not in pm.calc(c):
                us.append(None)      # an input: the user chooses the unit
                continue
            owner, fn = pm.find_method(c, "update_" + attr)
            if fn is None:
                us.append(None)
                continue
            ws = [n for n in ast.walk(fn) if isinstance(n, ast.Assign) and any(
                isinstance(t, ast.Attribute) and isinstance(t.value, ast.Name) and t.value.id == "self" and t.attr == attr
                for t in n.targets)]
            if not ws:
                # written through a dispatched helper (update_nb_of_instances -> *_update_nb_of_instances)
                for n in ast.walk(pm.classes[owner].node):
                    if isinstance(n, ast.Assign) and any(
                            isinstance(t, ast.Attribute) and isinstance(t.value, ast.Name) and t.value.id == "self"
                            and t.attr == attr for t in n.targets):
                        f2 = n
                        while not isinstance(f2, ast.FunctionDef):
                            f2 = f2._parent
                        if f2.name != "__init__":
                            ws.append(n)
            for w in ws:
                f2 = w
                while not isinstance(f2, ast.FunctionDef):
                    f2 = f2._parent
                if isinstance(w.value, ast.Call) and norm(w.value.func) == "EmptyExplainableObject":
                    continue      # an empty value has no magnitude to extract
                us.append(self.unit_of(w.value, f2, pm.classes[owner].node))
        if us and all(u is not None for u in us) and len({u[1] for u in us}) == 1:
            self.attr_memo[key] = us[0]
        return self.attr_memo[key]


def _strip(e):
    """receiver of an extraction without the pandas plumbing"""
    while True:
        if isinstance(e, ast.Attribute) and e.attr in ("values", "pint", "data", "_data"):
            e = e.value
        elif isinstance(e, ast.Subscript):
            e = e.value
        else:
            return e


def _is_display(rel, fn):
    if any(d in rel for d in DISPLAY_FILES):
        return True
    x = fn
    while x is not None:
        if isinstance(x, ast.FunctionDef) and x.name in DISPLAY_FUNCS:
            return True
        x = getattr(x, "_parent", None)
    return False


@rule("R-MAG")
def r_mag(E):
    pm = E.pm
    res = RuleResult("R-MAG", "every extraction of a bare number from a unit-carrying value (.magnitude, .m, ._data, "
                              ".values.data, .to_numpy()) has a receiver in a statically fixed unit, or sits in a "
                              "scale-invariant context (comparison with 0, equivariant re-wrap in the receiver's own "
                              "unit, value emitted next to its unit); ceil/round need a fixed unit at each call site")
    UN = Units(pm)
    counts = {}
    # private single-expression accessors / builders (`self._magnitudes`, `self._new_df(x)`) read as the expression they
    # stand for: their own body is not a site, every use is
    from ..astutil import inline_private_exprs, _single_return
    views, accessors = {}, set()
    for mod, (rel, tree, src) in sorted(pm.modules.items()):
        views[mod], used = inline_private_exprs(tree, pm.helper_finder)
        accessors |= used
    accessor_names = {h for _, h in accessors}
    # a local that merely names the receiver's unit (`own_unit = self.unit`) reads as the unit itself
    from ..astutil import aliases as _aliases, substitute_stmt as _sub_stmt
    for mod in views:
        touched = False
        for f_ in [x for x in ast.walk(views[mod]) if isinstance(x, ast.FunctionDef)]:
            al = {k: v for k, v in _aliases(f_).items() if norm(v).endswith((".unit", ".units")) and norm(v).startswith("self.")}
            if not al:
                continue

            def strip(stmts):
                out = []
                for st in stmts:
                    if isinstance(st, ast.Assign) and len(st.targets) == 1 and isinstance(st.targets[0], ast.Name) \
                            and st.targets[0].id in al:
                        continue
                    for field in ("body", "orelse", "finalbody"):
                        sub = getattr(st, field, None)
                        if isinstance(sub, list) and sub and isinstance(sub[0], ast.stmt):
                            setattr(st, field, strip(sub))
                    out.append(st)
                return out
            f_.body = [_sub_stmt(b, al) for b in strip(f_.body)]
            touched = True
        if touched:
            for n_ in ast.walk(views[mod]):
                for ch in ast.iter_child_nodes(n_):
                    ch._parent = n_
    for mod, (rel, tree0, src) in sorted(pm.modules.items()):
        tree = views[mod]
        for n in ast.walk(tree):
            sink = None
            if isinstance(n, ast.Attribute) and n.attr in ("magnitude", "m", "_data"):
                sink = n
            elif isinstance(n, ast.Attribute) and n.attr in accessor_names and isinstance(n.ctx, ast.Load) \
                    and not (isinstance(n.value, ast.Name) and n.value.id == "self"):
                sink = n      # an inlined accessor read on another object
            elif isinstance(n, ast.Attribute) and n.attr == "data" and isinstance(n.value, ast.Attribute) \
                    and n.value.attr == "values":
                sink = n
            elif isinstance(n, ast.Call) and norm(n.func) in ("np.full", "numpy.full", "np.full_like") and (
                    len(n.args) >= 2 or any(k.arg == "fill_value" for k in n.keywords)):
                # a pint quantity handed to numpy as fill value loses its unit: np.full(n, q) keeps q's magnitude in
                # whatever unit it was typed in (500 percent fills with 500)
                fill = n.args[1] if len(n.args) >= 2 else next(k.value for k in n.keywords if k.arg == "fill_value")
                if isinstance(fill, ast.Attribute) and fill.attr == "value":
                    sink = fill
            elif isinstance(n, ast.Call) and isinstance(n.func, ast.Attribute) and n.func.attr == "to_numpy":
                # only when it is not already the continuation of another sink
                if not any(isinstance(x, ast.Attribute) and x.attr in ("magnitude", "_data", "data") for x in ast.walk(n.func.value)):
                    sink = n.func
            if sink is None:
                continue
            if isinstance(sink, ast.Attribute) and sink.attr == "m" and not isinstance(getattr(sink, "ctx", None), ast.Load):
                continue
            fn, cls = UN.enclosing(n)
            if fn is None:
                continue
            if _is_display(rel, fn):
                counts["display (excluded)"] = counts.get("display (excluded)", 0) + 1
                continue
            q = f"{cls.name}.{fn.name}" if cls is not None else fn.name
            if cls is not None and fn.name in accessor_names and _single_return(fn) is not None:
                counts["private accessor (checked at its uses)"] = counts.get("private accessor (checked at its uses)", 0) + 1
                continue
            if cls is not None and (cls.name, fn.name) in EXEMPT:
                res.notes.append(f"{q}: exempt — {EXEMPT[(cls.name, fn.name)]}")
                counts["exempt accessor"] = counts.get("exempt accessor", 0) + 1
                continue
            res.instances += 1
            from ..astutil import expanded as _expanded
            recv = _expanded(sink.value, fn)
            verdict = None
            # 1. receiver in a fixed unit
            u = UN.unit_of(recv, fn, cls)
            if u is not None and u[1] != "self.unit":
                verdict = f"fixed unit {u[1]}"
            # 2. compared with zero
            par = getattr(n, "_parent", None)
            top = n
            while isinstance(par, (ast.Attribute, ast.Call)) and not isinstance(par, ast.Compare):
                top, par = par, getattr(par, "_parent", None)
            if verdict is None and isinstance(par, ast.Compare) and len(par.comparators) == 1:
                other = par.comparators[0] if par.left is top else par.left
                if isinstance(other, ast.Constant) and other.value == 0:
                    verdict = "sign / zero test (scale-invariant)"
            # 3. value emitted next to its own unit (serialisation)
            if verdict is None:
                d = n
                while d is not None and not isinstance(d, (ast.Dict, ast.FunctionDef)):
                    d = getattr(d, "_parent", None)
                if isinstance(d, ast.Dict) and any(isinstance(k, ast.Constant) and k.value == "unit" for k in d.keys):
                    verdict = "emitted together with str(units) (serialisation)"
            # 4. equivariant operation re-wrapped in the receiver's own unit
            if verdict is None:
                wrap = n
                while wrap is not None and not (isinstance(wrap, ast.Call) and norm(wrap.func) == "pint_pandas.PintArray"):
                    wrap = getattr(wrap, "_parent", None)
                local_target = None
                if wrap is None:
                    st = n
                    while st is not None and not isinstance(st, ast.Assign):
                        st = getattr(st, "_parent", None)
                    if st is not None and isinstance(st.targets[0], ast.Name):
                        local_target = st.targets[0].id
                        # the local flows into a PintArray(..., dtype=self.unit) through np.maximum / np.minimum
                        for w in ast.walk(fn):
                            if isinstance(w, ast.Call) and norm(w.func) == "pint_pandas.PintArray" and any(
                                    k.arg == "dtype" and norm(k.value) == "self.unit" for k in w.keywords):
                                srcs = {x.id for x in ast.walk(w) if isinstance(x, ast.Name)}
                                flows = {local_target}
                                for a in ast.walk(fn):
                                    if isinstance(a, ast.Assign) and isinstance(a.targets[0], ast.Name) and any(
                                            isinstance(x, ast.Name) and x.id in flows for x in ast.walk(a.value)):
                                        from ..astutil import callee_texts
                                        ops = set()
                                        for c in ast.walk(a.value):
                                            if isinstance(c, ast.Call):
                                                # index plumbing keeps the magnitudes: x.reindex(…), x.to_numpy(), x.fillna(0)
                                                if isinstance(c.func, ast.Attribute) and c.func.attr in ("reindex", "to_numpy", "fillna") \
                                                        and not (isinstance(c.func.value, ast.Name) and c.func.value.id == "np"):
                                                    continue
                                                ops |= callee_texts(c, fn)
                                        if ops <= {"np.maximum", "np.minimum"}:
                                            flows.add(a.targets[0].id)
                                # the wrapped expression itself may be the element-wise max / min of the flows
                                wops = set()
                                for c in ast.walk(w):
                                    if isinstance(c, ast.Call) and c is not w:
                                        from ..astutil import callee_texts
                                        wops |= callee_texts(c, fn)
                                if not wops <= {"np.maximum", "np.minimum"}:
                                    continue
                                if srcs & flows:
                                    own = "self" in norm(_strip(recv)) or ".to(self.unit)" in norm(recv)
                                    if own:
                                        verdict = "element-wise max/min re-wrapped in the receiver's own unit (equivariant)"
                if wrap is not None and any(k.arg == "dtype" and norm(k.value) == "self.unit" for k in wrap.keywords) \
                        and norm(_strip(recv)).startswith("self.value"):
                    ops = [c.func.attr for c in ast.walk(wrap) if isinstance(c, ast.Call) and isinstance(c.func, ast.Attribute)
                           and isinstance(c.func.value, ast.Name) and c.func.value.id == "np"]
                    if all(o in EQUIVARIANT_NP for o in ops):
                        verdict = "equivariant operation re-wrapped in the receiver's own unit"
                    elif all(o in EQUIVARIANT_NP | UNIT_PARAMETRIC_NP for o in ops):
                        verdict = f"unit-parametric ({'/'.join(ops)}): checked at each call site"
            key = f"{rel}:{q} :: {norm(n if isinstance(n, ast.Attribute) else n)[:90]}"
            if verdict is None:
                res.findings.append(Finding(
                    "R-MAG", key,
                    f"{q} takes a bare number out of `{norm(recv)[:70]}` while its unit is whatever the input was typed "
                    f"in: the result changes when the same quantity is expressed in another unit (GB/MB, years/days…)",
                    rel, n.lineno, q, {"clauses": ["all"] + (["operators"] if rel.endswith("explainable_objects.py") else [])}))
            else:
                counts[verdict.split(" (")[0][:40]] = counts.get(verdict.split(" (")[0][:40], 0) + 1
                if len(res.samples) < 8:
                    res.samples.append({"site": f"{rel}:{int(n.lineno)} {q}", "extraction": norm(n)[:80], "verdict": verdict})
    # call sites of the unit-parametric methods in model code
    for mod, (rel, tree, src) in sorted(pm.modules.items()):
        if not (rel.startswith("efootprint/core") or rel.startswith("efootprint/builders")):
            continue
        for n in ast.walk(tree):
            recv = None
            if isinstance(n, ast.Call) and isinstance(n.func, ast.Attribute) and n.func.attr in ("ceil", "round") \
                    and not (isinstance(n.func.value, ast.Name) and n.func.value.id in ("np", "math")):
                recv = n.func.value
            if isinstance(n, ast.Call) and isinstance(n.func, ast.Name) and n.func.id == "round" and n.args:
                recv = n.args[0]
                # round(<q>.to(<unit>).magnitude, n): the number rounded is the magnitude of <q> in that unit
                while isinstance(recv, ast.Attribute) and recv.attr in ("magnitude", "m"):
                    recv = recv.value
            if recv is None:
                continue
            fn, cls = UN.enclosing(n)
            if fn is None or _is_display(rel, fn) or cls is None:
                continue
            # only roundings of model values: the receiver (through its local definitions) reads self.<attr>
            names, todo, from_self = set(), [recv], False
            while todo:
                x = todo.pop()
                for y in ast.walk(x):
                    if isinstance(y, ast.Attribute) and isinstance(y.value, ast.Name) and y.value.id == "self":
                        from_self = True
                    if isinstance(y, ast.Name) and y.id not in names:
                        names.add(y.id)
                        todo += [d for d in UN.local_defs(fn, y.id) if d is not None]
            if not from_self:
                continue
            res.instances += 1
            q = f"{cls.name}.{fn.name}" if cls is not None else fn.name
            u = UN.unit_of(recv, fn, cls)
            if u is None:
                res.findings.append(Finding(
                    "R-MAG", f"{rel}:{q} :: {norm(n)[:90]} call-site unit",
                    f"{q} rounds `{norm(recv)[:60]}` whose unit is not statically fixed: ceil/round of 0.5 TB and of "
                    f"500 GB differ, so the result depends on the unit the input was typed in", rel, n.lineno, q,
                    {"clauses": ["all"] + (["operators"] if rel.endswith("explainable_objects.py") else [])}))
            elif len(res.samples) < 12:
                res.samples.append({"site": f"{rel}:{int(n.lineno)} {q}", "rounding": norm(n)[:70], "receiver_unit": u[1]})
    # comparisons with an absolute tolerance: np.isclose / np.allclose add atol (1e-8 by default) to bare magnitudes, taken
    # in the unit of the first operand; math.isclose does so when abs_tol is given. A tolerance of 1e-8 "of whatever
    # unit was typed" makes the answer depend on that unit (8e-13 s and 1.6e-12 s are "close", 0.8 ps and 1.6 ps are not)
    for mod, (rel, tree, src) in sorted(pm.modules.items()):
        for n in ast.walk(tree):
            if not (isinstance(n, ast.Call) and len(n.args) >= 2):
                continue
            ft = norm(n.func)
            last = ft.rsplit(".", 1)[-1]
            if last not in ("isclose", "allclose", "assert_allclose"):
                continue
            kws = {k.arg: k.value for k in n.keywords}
            if ft.startswith("math.") or ft == "isclose" and "abs_tol" in kws:
                tol = kws.get("abs_tol")
            else:
                tol = kws.get("atol", n.args[3] if len(n.args) >= 4 else "default")
            if tol is None or (isinstance(tol, ast.Constant) and tol.value == 0):
                continue      # purely relative: scale-invariant
            fn, cls = UN.enclosing(n)
            if fn is None or _is_display(rel, fn):
                continue
            res.instances += 1
            q = f"{cls.name}.{fn.name}" if cls is not None else fn.name
            us = [UN.unit_of(_strip(a.value) if isinstance(a, ast.Attribute) and a.attr == "value" else a, fn, cls)
                  for a in n.args[:2]]
            if any(u_ is not None and u_[1] != "self.unit" for u_ in us):
                counts["absolute tolerance on a fixed unit"] = counts.get("absolute tolerance on a fixed unit", 0) + 1
                continue
            res.findings.append(Finding(
                "R-MAG", f"{rel}:{q} :: {norm(n)[:90]} absolute tolerance",
                f"{q} compares `{norm(n.args[0])[:40]}` and `{norm(n.args[1])[:40]}` with an absolute tolerance "
                f"({'the default atol=1e-8' if tol == 'default' else norm(tol)}) applied to the bare magnitudes in whatever unit "
                f"the first operand was typed in: two values are 'equal' in one unit and different in another", rel,
                n.lineno, q, {"clauses": ["all"] + (["operators"] if rel.endswith("explainable_objects.py") else [])}))
    res.breakdown = counts
    res.floor = 26
    return res
