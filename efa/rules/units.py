"""R-MAG: every bare-number extraction from a unit-carrying value happens in a statically fixed unit or in a
scale-invariant context (DESIGN §4.3, §5.B). Intra-procedural, syntactic unit evaluator with an attribute-unit table."""
import ast

from . import rule
from ..frontend import AnalysisError, norm, is_property
from ..report import Finding, RuleResult

DISPLAY_FUNCS = {"__str__", "__repr__", "plot", "_round_series_values", "key_value_to_str",
                 "plot_footprints_by_category_and_object", "plot_emission_diffs", "plot_baseline_and_simulation_dfs",
                 "format_co2_amount", "display_co2_amount"}
DISPLAY_FILES = ("utils/plot_", "utils/tools.py", "utils/graph_tools.py", "utils/calculus_graph.py",
                 "utils/object_relationships_graphs.py")
EXEMPT = {
    ("ExplainableQuantity", "magnitude"): "accessor: the definition of .magnitude for explainable quantities; its uses "
                                          "are the sites this rule checks",
    ("ExplainableHourlyQuantities", "value_as_float_list"): "accessor with no caller in the package",
}
UNIT_PRESERVING = {"set_label", "copy", "abs", "ceil", "max", "min", "sum", "mean", "np_compared_with",
                   "generate_explainable_object_with_logical_dependency", "round", "cumsum"}
EQUIVARIANT_NP = {"abs", "maximum", "minimum", "negative"}
UNIT_PARAMETRIC_NP = {"ceil", "round", "floor", "rint"}


def _is_uexpr(e):
    """expression over unit-registry constants: u.kg, u.kWh / u.GB, u("GB") with a literal"""
    if isinstance(e, ast.Attribute) and isinstance(e.value, ast.Name) and e.value.id == "u":
        return True
    if isinstance(e, ast.BinOp) and isinstance(e.op, (ast.Mult, ast.Div, ast.Pow)):
        return (_is_uexpr(e.left) or isinstance(e.left, ast.Constant)) and (_is_uexpr(e.right) or isinstance(e.right, ast.Constant))
    if isinstance(e, ast.Call) and isinstance(e.func, ast.Name) and e.func.id == "u" and e.args \
            and isinstance(e.args[0], ast.Constant):
        return True
    return False


class Units:
    def __init__(self, pm):
        self.pm = pm
        self.attr_memo = {}

    def enclosing(self, n):
        fn = cls = None
        x = n
        while x is not None:
            if isinstance(x, ast.FunctionDef) and fn is None:
                fn = x
            if isinstance(x, ast.ClassDef) and cls is None:
                cls = x
            x = getattr(x, "_parent", None)
        return fn, cls

    def local_defs(self, fn, name):
        out = []
        for n in ast.walk(fn):
            if isinstance(n, ast.Assign):
                for t in n.targets:
                    if isinstance(t, ast.Name) and t.id == name:
                        out.append(n.value)
            if isinstance(n, ast.AugAssign) and isinstance(n.target, ast.Name) and n.target.id == name:
                out.append(None)      # x op= y keeps x's unit for + and -, unknown otherwise; treated as keep
        return out

    def unit_of(self, e, fn, cls, depth=0):
        """('fixed', text) | None"""
        if depth > 12 or e is None:
            return None
        U = lambda x: self.unit_of(x, fn, cls, depth + 1)
        if isinstance(e, ast.Call):
            f = e.func
            if isinstance(f, ast.Attribute):
                if f.attr == "to" and e.args:
                    if _is_uexpr(e.args[0]):
                        return ("fixed", norm(e.args[0]))
                    if norm(e.args[0]) == "self.unit":
                        return ("fixed", "self.unit")
                    # converted to the unit of a calculated attribute that its rule leaves in a fixed unit
                    # (`storage_unit = self.storage_delta.unit … .to(storage_unit).magnitude`)
                    return self.unit_named_by(e.args[0], fn, cls)
                if f.attr in UNIT_PRESERVING:
                    return U(f.value)
                if f.attr in ("reindex", "to_numpy", "shift", "fillna"):
                    return U(f.value)
            if isinstance(f, ast.Name):
                if f.id in ("copy", "round") and e.args:
                    return U(e.args[0])
                if f.id in ("reduce", "functools.reduce") and len(e.args) >= 2 and isinstance(e.args[0], ast.Lambda) \
                        and len(e.args[0].args.args) == 2:
                    # a fold that keeps the unit of its operands (element-wise max / min, sum): the unit of the elements
                    a_, b_ = [x.arg for x in e.args[0].args.args]
                    body = e.args[0].body
                    keeps = (isinstance(body, ast.Call) and isinstance(body.func, ast.Attribute)
                             and body.func.attr in ("np_compared_with",) and norm(body.func.value) == a_
                             and body.args and norm(body.args[0]) == b_) or \
                            (isinstance(body, ast.BinOp) and isinstance(body.op, (ast.Add, ast.Sub))
                             and {norm(body.left), norm(body.right)} == {a_, b_})
                    if keeps:
                        us = [U(x) for x in e.args[1:]]
                        if all(u_ is not None for u_ in us) and len({u_[1] for u_ in us}) == 1:
                            return us[0]
                    return None
                if f.id in ("list", "tuple", "sorted", "reversed") and len(e.args) == 1:
                    return U(e.args[0])
                if f.id in ("ExplainableQuantity", "SourceValue") and e.args:
                    return U(e.args[0])
                if f.id in ("ExplainableHourlyQuantities", "SourceHourlyValues") and e.args:
                    return U(e.args[0])
            if isinstance(f, ast.Attribute) and isinstance(f.value, ast.Name) and f.value.id == "self" and cls is not None:
                # a method of the same class: the unit of what it returns, when every return agrees (a public helper
                # `compute_…(kind)` whose last step is `.to(u.dimensionless)`)
                owner, h = self.pm.find_method(cls.name, f.attr)
                if h is not None and h is not fn and depth < 8:
                    hc = self.pm.classes[owner].node
                    us = [self.unit_of(r.value, h, hc, depth + 1) for r in ast.walk(h)
                          if isinstance(r, ast.Return) and r.value is not None]
                    if us and all(u is not None for u in us) and len({u[1] for u in us}) == 1:
                        return us[0]
                return None
            if norm(f) in ("pd.DataFrame", "pint_pandas.PintArray"):
                for n in ast.walk(e):
                    if isinstance(n, ast.keyword) and n.arg == "dtype":
                        if _is_uexpr(n.value):
                            return ("fixed", norm(n.value))
                        if norm(n.value) == "self.unit":
                            return ("fixed", "self.unit")
                return None
            return None
        if isinstance(e, ast.BinOp):
            if isinstance(e.op, ast.Mult):
                # <number> * u.X
                if _is_uexpr(e.right) and not _is_uexpr(e.left):
                    return ("fixed", norm(e.right))
                if _is_uexpr(e.left) and not _is_uexpr(e.right):
                    return ("fixed", norm(e.left))
                l, r = U(e.left), U(e.right)
                if l and r:
                    return ("fixed", f"({l[1]})*({r[1]})")
                return None
            if isinstance(e.op, ast.Div):
                l, r = U(e.left), U(e.right)
                if l and r:
                    return ("fixed", f"({l[1]})/({r[1]})")
                return None
            if isinstance(e.op, (ast.Add, ast.Sub)):
                return U(e.left)
            return None
        if isinstance(e, ast.UnaryOp):
            return U(e.operand)
        if isinstance(e, (ast.ListComp, ast.GeneratorExp)):
            return U(e.elt)         # a collection of values: the unit they all have
        if isinstance(e, (ast.List, ast.Tuple)) and e.elts:
            us = [U(x) for x in e.elts]
            if all(u_ is not None for u_ in us) and len({u_[1] for u_ in us}) == 1:
                return us[0]
            return None
        if isinstance(e, ast.Subscript):
            return U(e.value)       # df["value"], series[...] keep the unit
        if isinstance(e, ast.Attribute):
            if e.attr in ("value", "values", "pint", "data", "iloc", "loc"):
                return U(e.value)
            if isinstance(e.value, ast.Name) and e.value.id == "self" and cls is not None:
                return self.attr_unit(cls.name, e.attr)
            return None
        if isinstance(e, ast.Name) and fn is not None:
            # the definition that reaches this use, when it sits unconditionally before it in the same block
            st = e
            while st is not None and not isinstance(st, ast.stmt):
                st = getattr(st, "_parent", None)
            if st is not None:
                from ..astutil import reaching_value
                rv = reaching_value(st, e.id)
                if rv is not None and not any(isinstance(x, ast.Name) and x.id == e.id for x in ast.walk(rv)):
                    return U(rv)
                if rv is not None:
                    # x = x.to(u.kg)…: the unit is that of the right-hand side whatever x was before
                    r = self.unit_of_rebinding(rv, e.id, fn, cls, depth + 1)
                    if r is not None:
                        return r
            defs = self.local_defs(fn, e.id)
            real = [d for d in defs if d is not None]
            if not real:
                return None
            us = [U(d) for d in real]
            if all(u is not None for u in us) and len({u[1] for u in us}) == 1:
                return us[0]
            return None
        return None

    def unit_named_by(self, e, fn, cls):
        """the fixed unit that a unit-valued expression stands for: `self.<calculated attribute>.unit` (through a local
        alias) when the attribute's rule leaves it in a statically fixed unit; None otherwise"""
        from ..astutil import fully_expanded
        try:
            x = fully_expanded(e, fn)
        except Exception:
            x = e
        if isinstance(x, ast.Attribute) and x.attr in ("unit", "units") and isinstance(x.value, ast.Attribute) \
                and isinstance(x.value.value, ast.Name) and x.value.value.id == "self" and cls is not None:
            r = self.attr_unit(cls.name, x.value.attr)
            if r is not None and r[1] != "self.unit":
                return r
        return None

    def unit_of_rebinding(self, rv, name, fn, cls, depth):
        """unit of `name = <rv mentioning name>` when rv fixes the unit by itself (a `.to(<unit>)` on the way)"""
        e = rv
        while isinstance(e, ast.Call) and isinstance(e.func, ast.Attribute):
            if e.func.attr == "to" and e.args and (_is_uexpr(e.args[0])):
                return ("fixed", norm(e.args[0]))
            if e.func.attr in UNIT_PRESERVING:
                e = e.func.value
                continue
            break
        return None

    def attr_unit(self, cn, attr):
        """unit a calculated attribute (or a property) of class cn is left in by its rule, over cn and its public
        subclasses; None if any of them leaves it in a unit that is not statically fixed"""
        key = (cn, attr)
        if key in self.attr_memo:
            return self.attr_memo[key]
        self.attr_memo[key] = None
        pm = self.pm
        classes = [c for c in ([cn] + pm.subclasses(cn)) if c in pm.ALL] or [cn]
        us = []
        for c in classes:
            owner, prop = pm.find_method(c, attr)
            if prop is not None and is_property(prop):
                rets = [r.value for r in ast.walk(prop) if isinstance(r, ast.Return) and r.value is not None]
                us += [self.unit_of(r, prop, pm.classes[owner].node) for r in rets]
                continue
            if attr not in pm.calc(c):
                us.append(None)      # an input: the user chooses the unit
                continue
            owner, fn = pm.find_method(c, "update_" + attr)
            if fn is None:
                us.append(None)
                continue
            ws = [n for n in ast.walk(fn) if isinstance(n, ast.Assign) and any(
                isinstance(t, ast.Attribute) and isinstance(t.value, ast.Name) and t.value.id == "self" and t.attr == attr
                for t in n.targets)]
            if not ws:
                # written through a dispatched helper (update_nb_of_instances -> *_update_nb_of_instances)
                for n in ast.walk(pm.classes[owner].node):
                    if isinstance(n, ast.Assign) and any(
                            isinstance(t, ast.Attribute) and isinstance(t.value, ast.Name) and t.value.id == "self"
                            and t.attr == attr for t in n.targets):
                        f2 = n
                        while not isinstance(f2, ast.FunctionDef):
                            f2 = f2._parent
                        if f2.name != "__init__":
                            ws.append(n)
            for w in ws:
                f2 = w
                while not isinstance(f2, ast.FunctionDef):
                    f2 = f2._parent
                if isinstance(w.value, ast.Call) and norm(w.value.func) == "EmptyExplainableObject":
                    continue      # an empty value has no magnitude to extract
                us.append(self.unit_of(w.value, f2, pm.classes[owner].node))
        if us and all(u is not None for u in us) and len({u[1] for u in us}) == 1:
            self.attr_memo[key] = us[0]
        return self.attr_memo[key]


def _taken_in(recv):
    """text of the unit the bare numbers of an extraction are expressed in, when the receiver says so: the receiver's
    own series (self.value…) -> self.unit; ….to(U)… / ….pint.to(U)… -> U"""
    x = recv
    while True:
        if isinstance(x, ast.Attribute) and x.attr in ("values", "pint", "data", "_data", "magnitude"):
            x = x.value
        elif isinstance(x, ast.Subscript):
            x = x.value
        elif isinstance(x, ast.Call) and isinstance(x.func, ast.Attribute) and x.func.attr == "to" and len(x.args) == 1:
            return norm(x.args[0])
        elif isinstance(x, ast.Call) and isinstance(x.func, ast.Attribute) and x.func.attr in ("reindex", "to_numpy", "fillna", "copy"):
            x = x.func.value
        else:
            break
    return "self.unit" if norm(x) == "self.value" else None


def default_sink_of(n, accessor_names=()):
    """the node whose `.value` is the receiver of an extraction of bare numbers, or None"""
    sink = None
    if isinstance(n, ast.Attribute) and n.attr in ("magnitude", "m", "_data"):
        sink = n
    elif isinstance(n, ast.Attribute) and n.attr in accessor_names and isinstance(n.ctx, ast.Load) \
            and not (isinstance(n.value, ast.Name) and n.value.id == "self"):
        sink = n      # an inlined accessor read on another object
    elif isinstance(n, ast.Attribute) and n.attr == "data" and isinstance(n.value, ast.Attribute) \
            and n.value.attr == "values":
        sink = n
    elif isinstance(n, ast.Call) and norm(n.func) in ("np.full", "numpy.full", "np.full_like") and (
            len(n.args) >= 2 or any(k.arg == "fill_value" for k in n.keywords)):
        # a pint quantity handed to numpy as fill value loses its unit: np.full(n, q) keeps q's magnitude in
        # whatever unit it was typed in (500 percent fills with 500)
        fill = n.args[1] if len(n.args) >= 2 else next(k.value for k in n.keywords if k.arg == "fill_value")
        if isinstance(fill, ast.Attribute) and fill.attr == "value":
            sink = fill
    elif isinstance(n, ast.Call) and isinstance(n.func, ast.Attribute) and n.func.attr == "to_numpy":
        # only when it is not already the continuation of another sink
        if not any(isinstance(x, ast.Attribute) and x.attr in ("magnitude", "_data", "data") for x in ast.walk(n.func.value)):
            sink = n.func
    return sink


def _series_root(recv):
    """text of the explainable whose frame the receiver of an extraction reads (`X` of X.value[…]…), or None"""
    x = recv
    while True:
        if isinstance(x, ast.Attribute) and x.attr in ("values", "pint", "data", "_data", "magnitude"):
            x = x.value
        elif isinstance(x, ast.Subscript):
            x = x.value
        elif isinstance(x, ast.Call) and isinstance(x.func, ast.Attribute) and x.func.attr in ("to", "reindex", "to_numpy", "fillna", "copy"):
            x = x.func.value
        else:
            break
    if isinstance(x, ast.Attribute) and x.attr == "value":
        return norm(x.value)
    return None


class MagnitudeFlow:
    """Where the bare numbers taken out of unit-carrying series go inside one function. Statement-ordered walk with one
    environment {local: set of (extraction id, unit text, index text)}; branches are joined; `if A.index.equals(B.index)`
    (also through a small helper of the class) is remembered inside its body.
      ok            {id(extraction node): unit} — reaches a PintArray(…, dtype=<that unit>) through equivariant
                    operations only (index alignment with zero fill, +, -, element-wise max / min / abs)
      escaped       ids of extractions that (also) reach anything else
      elementwise   [(node, [operand sets])] the two-array operations met
      misaligned    [(node, index texts)] element-wise operations whose operands are not on one index
      mixed_units   [(node, unit texts)] element-wise operations whose operands are not in one unit"""

    def __init__(self, fn, sink_of, tables=None, find_method=None, records=None):
        self.ok, self.escaped, self.alias, self.spelled, self.roots = {}, set(), {}, {}, {}
        self.elementwise, self.misaligned, self.mixed_units, self.untraced = [], [], [], []
        rec_nodes = {k: v for k, v in (records or {}).items() if isinstance(v, ast.ClassDef)}
        cls_ = getattr(fn, "_parent", None)
        if rec_nodes:
            # records built by a straight-line helper read as their field expressions (x.left, x.magnitudes_in(u), x.index)
            from ..astutil import expand_records, split_record_arms
            fn0_ = fn
            fn = split_record_arms(fn, rec_nodes)
            fn._parent = getattr(fn0_, "_parent", None)
            fn = expand_records(fn, find_method, None, rec_nodes)
        self.fn, self.sink_of, self.find_method = fn, sink_of, find_method
        # record classes of the module: name -> field names in order
        self.records = {k: ([b.target.id for b in v.body if isinstance(b, ast.AnnAssign) and isinstance(b.target, ast.Name)]
                            if isinstance(v, ast.ClassDef) else v) for k, v in (records or {}).items()}
        self.returned = set()              # extractions handed back to the caller (judged in the callers' flows)
        self.in_record_method = isinstance(cls_, ast.ClassDef) and cls_.name in (records or {})
        self.collect, self.depth = None, 0
        from ..astutil import expanded as _exp
        self._exp = lambda e: _exp(e, fn)
        # class-level tables of the enclosing class read as self.TABLE
        class_tables = {st_.targets[0].id: st_.value for st_ in (cls_.body if isinstance(cls_, ast.ClassDef) else [])
                        if isinstance(st_, ast.Assign) and len(st_.targets) == 1 and isinstance(st_.targets[0], ast.Name)
                        and isinstance(st_.value, ast.Dict)}
        # locals bound to a numpy function out of a literal table: `f = {"max": np.maximum, "min": np.minimum}.get(k)` / `[k]`
        self.callables = {}
        bindings = [(a_.targets[0], a_.value) for a_ in ast.walk(fn) if isinstance(a_, ast.Assign) and len(a_.targets) == 1] + \
            [(a_.target, a_.value) for a_ in ast.walk(fn) if isinstance(a_, ast.NamedExpr)]
        for tgt_, v_ in bindings:
            if isinstance(tgt_, ast.Name):
                a_ = ast.Assign(targets=[tgt_], value=v_)
                alts = [v_.body, v_.orelse] if isinstance(v_, ast.IfExp) else None
                if alts and all(isinstance(x, ast.Attribute) and isinstance(x.value, ast.Name) and x.value.id in ("np", "numpy")
                                for x in alts):
                    self.callables[a_.targets[0].id] = {x.attr for x in alts}
                    continue
                tab = None
                if isinstance(v_, ast.Call) and isinstance(v_.func, ast.Attribute) and v_.func.attr == "get" and len(v_.args) == 1:
                    tab = v_.func.value
                elif isinstance(v_, ast.Subscript):
                    tab = v_.value
                if isinstance(tab, ast.Name) and tables is not None:
                    tab = tables.get(tab.id)
                elif isinstance(tab, ast.Attribute) and isinstance(tab.value, ast.Name) and tab.value.id in ("self", "cls"):
                    tab = class_tables.get(tab.attr)
                if isinstance(tab, ast.Dict) and tab.values and all(
                        isinstance(x, ast.Attribute) and isinstance(x.value, ast.Name) and x.value.id in ("np", "numpy")
                        for x in tab.values):
                    self.callables[a_.targets[0].id] = {x.attr for x in tab.values}
        self.facts = []          # stack of sets of frozenset({index text, index text}) known equal
        self.run(fn.body, {})
        for i, behind in self.alias.items():
            # plumbing sites stand or fall with the extractions behind them (undecided while those are only handed back)
            if any(b in self.escaped for b in behind) or not behind:
                self.escaped.add(i)
            elif all(b in self.ok for b in behind):
                self.ok[i] = self.ok[next(iter(behind))]

    ZERO = ("zeros", "*", "*")

    @staticmethod
    def zero(e):
        return isinstance(e, ast.Constant) and e.value == 0 and not isinstance(e.value, bool)

    def _map_back(self, orig, copy, names):
        """a copy of `orig` with some names spelled out: its nodes stand for the original ones (site identities)"""
        if orig is copy:
            return
        if isinstance(orig, ast.Name) and orig.id in names:
            return
        self.spelled[id(copy)] = self.spelled.get(id(orig), id(orig))
        for (f1, v1), (f2, v2) in zip(ast.iter_fields(orig), ast.iter_fields(copy)):
            if isinstance(v1, ast.AST) and isinstance(v2, ast.AST):
                self._map_back(v1, v2, names)
            elif isinstance(v1, list) and isinstance(v2, list) and len(v1) == len(v2):
                for a_, b_ in zip(v1, v2):
                    if isinstance(a_, ast.AST) and isinstance(b_, ast.AST):
                        self._map_back(a_, b_, names)

    def site(self, e):
        sk = self.sink_of(e)
        if sk is None:
            return None
        recv = self._exp(sk.value)
        u = _taken_in(recv)
        root = _series_root(recv)
        if u is None and root is not None:
            u = f"{root}.unit"
        idx = f"{root}.value.index" if root is not None else None
        sid = self.spelled.get(id(e), id(getattr(e, "_origin", e)))
        self.roots.setdefault(sid, set()).add(root)
        # an index alignment already in the receiver
        for c in ast.walk(recv):
            if isinstance(c, ast.Call) and isinstance(c.func, ast.Attribute) and c.func.attr == "reindex" and c.args:
                idx = norm(self._exp(c.args[0]))
        return (sid, u, idx)

    @staticmethod
    def _flat(v):
        """the triples of an environment value (a set, or a record {field: set})"""
        if isinstance(v, dict):
            return {t for f_ in v.get("__rec__", {}).values() for t in f_}
        return set(v)

    def kill(self, e, env):
        for x in ast.walk(e):
            st = self.site(x) if isinstance(x, (ast.Attribute, ast.Call)) else None
            if st is not None:
                self.escaped.add(st[0])
            if isinstance(x, ast.Name) and x.id in env and x.id != "__facts__":
                self.escaped.update(i for i, _, _ in self._flat(env[x.id]))
        return set()

    def equal_indexes(self, a, b, env):
        return a == b or a == "*" or b == "*" or frozenset((a, b)) in env.get("__facts__", ())

    def combine(self, node, parts, env):
        """element-wise operation on several arrays: one unit, one index"""
        real = [p for p in parts if p]
        if len(real) >= 2:
            self.elementwise.append((node, parts))
            units = sorted({u for p in real for _, u, _ in p if u != "*"}, key=str)
            if len(units) > 1:
                self.mixed_units.append((node, units))
            idxs = sorted({ix for p in real for _, _, ix in p if ix != "*"}, key=str)
            if any(not self.equal_indexes(a, b, env) for a in idxs for b in idxs):
                self.misaligned.append((node, idxs))
        return set().union(*parts) if parts else set()

    def ev(self, e, env):
        zero, kill, ev = self.zero, self.kill, self.ev
        if isinstance(e, ast.Attribute) and isinstance(e.value, ast.Name) and isinstance(env.get(e.value.id), dict) \
                and "__rec__" in env[e.value.id]:
            return set(env[e.value.id]["__rec__"].get(e.attr, ()))     # a field of a record returned by a helper
        if isinstance(e, ast.NamedExpr):
            v_ = ev(e.value, env)
            if isinstance(e.target, ast.Name):
                env[e.target.id] = v_
            return v_
        st = self.site(e) if isinstance(e, (ast.Attribute, ast.Call)) else None
        if st is not None:
            behind = ev(self.sink_of(e).value, env)
            if behind:
                # `.to_numpy()` / `.magnitude` of something that already is a bare array of the function: plumbing — the
                # site stands or falls with the extractions behind it
                self.alias[st[0]] = {i for i, _, _ in behind if i != "zeros"}
                return behind
            if st[1] is None:
                if self.in_record_method:
                    return {st}       # a field of a record: what it holds is known where the record is built (the callers)
                return kill(e, env)
            return {st}
        if isinstance(e, ast.Call) and norm(e.func) in ("np.zeros", "numpy.zeros", "np.zeros_like", "np.full", "numpy.full") and (
                norm(e.func).endswith(("zeros", "zeros_like")) or any(k.arg == "fill_value" and zero(k.value) for k in e.keywords)
                or (len(e.args) >= 2 and zero(e.args[1]))):
            return {self.ZERO}
        if isinstance(e, ast.Name):
            v_ = env.get(e.id, ())
            return set() if isinstance(v_, dict) else set(v_)
        if isinstance(e, ast.Constant):
            return set()
        if isinstance(e, ast.BinOp) and isinstance(e.op, (ast.Add, ast.Sub)):
            l, r = ev(e.left, env), ev(e.right, env)
            if l and r:
                return self.combine(e, [l, r], env)
            if (l and zero(e.right)) or (r and zero(e.left)):
                return l | r
            return kill(e, env) if (l or r) else set()
        if isinstance(e, ast.BinOp) and isinstance(e.op, (ast.Mult, ast.Div)):
            l, r = ev(e.left, env), ev(e.right, env)
            if bool(l) != bool(r) and not (r and isinstance(e.op, ast.Div)):
                # bare numbers scaled by a plain factor: still that series' numbers, no longer in a stated unit
                return {(i, "?" if i != "zeros" else "*", ix) for i, _, ix in (l or r)}
            return kill(e, env) if (l or r) else set()
        if isinstance(e, ast.UnaryOp) and isinstance(e.op, (ast.USub, ast.UAdd)):
            return ev(e.operand, env)
        if isinstance(e, ast.IfExp):
            if ev(e.test, env):
                kill(e.test, env)
            return ev(e.body, env) | ev(e.orelse, env)
        if isinstance(e, ast.Call) and isinstance(e.func, ast.Attribute):
            f = e.func
            if isinstance(f.value, ast.Name) and f.value.id in ("np", "numpy"):
                if f.attr in EQUIVARIANT_NP | {"add", "subtract"}:
                    parts = [ev(a, env) for a in e.args]
                    if all(p or zero(a) for p, a in zip(parts, e.args)) and not e.keywords:
                        return self.combine(e, parts, env)
                    if any(parts):
                        self.untraced.append(e)
                    return kill(e, env)
                if any(ev(a, env) for a in e.args):
                    return kill(e, env)
                return set()
            recv = ev(f.value, env)
            if recv:
                if f.attr in ("to_numpy", "copy") and not e.args:
                    return recv
                if f.attr in ("reindex", "fillna"):
                    fills = [k.value for k in e.keywords if k.arg in ("fill_value", "value")] + (e.args if f.attr == "fillna" else [])
                    if all(zero(x) for x in fills) and (fills or f.attr == "reindex") and not any(
                            ev(a, env) for a in e.args if not zero(a)):
                        if f.attr == "reindex" and e.args:
                            ix = norm(self._exp(e.args[0]))
                            return {(i, u, ix if i != "zeros" else "*") for i, u, _ in recv}
                        return recv
                return kill(e, env)
        if isinstance(e, ast.Call) and isinstance(e.func, ast.Name) and e.func.id in self.callables:
            # a local that names one of several numpy functions picked from a table: equivariant when all of them are
            if self.callables[e.func.id] <= EQUIVARIANT_NP and not e.keywords:
                parts = [ev(a, env) for a in e.args]
                if all(parts):
                    return self.combine(e, parts, env)
                if any(parts):
                    self.untraced.append(e)
            return kill(e, env)
        if isinstance(e, ast.Call) and norm(e.func) == "pint_pandas.PintArray" and e.args:
            arg = ev(e.args[0], env)
            dt = next((norm(k.value) for k in e.keywords if k.arg == "dtype"), norm(e.args[1]) if len(e.args) > 1 else None)
            for i, u, _ in arg:
                if i == "zeros":
                    continue
                if u == dt:
                    self.ok[i] = u
                else:
                    self.escaped.add(i)
            return set()
        if isinstance(e, (ast.Tuple, ast.List)):
            return set().union(*[ev(x, env) for x in e.elts]) if e.elts else set()
        if isinstance(e, (ast.Dict,)):
            for v in e.values:
                if v is not None and ev(v, env):
                    kill(v, env)
            return set()
        if isinstance(e, ast.Call) and isinstance(e.func, ast.Name) and e.func.id in self.records:
            out_ = set()
            for a in list(e.args) + [k.value for k in e.keywords]:
                out_ |= ev(a, env)
            return out_          # a record of arrays: carried as such (its fields are told apart where a helper returns it)
        if isinstance(e, ast.Call):
            # any other call: arguments that carry bare numbers leave the analysis
            for a in list(e.args) + [k.value for k in e.keywords]:
                if ev(a, env):
                    kill(a, env)
            if isinstance(e.func, ast.Attribute) and ev(e.func.value, env):
                kill(e.func.value, env)
            return set()
        if isinstance(e, (ast.Attribute, ast.Subscript, ast.Starred)):
            inner = ev(e.value, env)
            return kill(e, env) if inner else set()
        if isinstance(e, (ast.Compare, ast.BoolOp, ast.BinOp, ast.UnaryOp, ast.JoinedStr, ast.FormattedValue)):
            if isinstance(e, ast.Compare) and len(e.comparators) == 1 and (zero(e.comparators[0]) or zero(e.left)):
                return set()
            for ch in ast.iter_child_nodes(e):
                if isinstance(ch, ast.expr) and ev(ch, env):
                    kill(ch, env)
            return set()
        if isinstance(e, (ast.GeneratorExp, ast.ListComp, ast.SetComp, ast.DictComp, ast.Lambda)):
            return kill(e, env)
        return set()

    @staticmethod
    def spread(value_node):
        """`a, *(f(m) for m in (x, y))` read as `a, f(x), f(y)`: list of (expression, {generator variable: source}) """
        if not isinstance(value_node, (ast.Tuple, ast.List)):
            return None
        out = []
        for x in value_node.elts:
            if isinstance(x, ast.Starred):
                g = x.value
                if not (isinstance(g, (ast.GeneratorExp, ast.ListComp)) and len(g.generators) == 1 and not g.generators[0].ifs
                        and isinstance(g.generators[0].target, ast.Name)
                        and isinstance(g.generators[0].iter, (ast.Tuple, ast.List))):
                    return None
                out += [(g.elt, {g.generators[0].target.id: src}) for src in g.generators[0].iter.elts]
            else:
                out.append((x, {}))
        return out

    def assign(self, t, v, value_node, env):
        ev, assign = self.ev, self.assign
        if isinstance(t, ast.Name):
            env[t.id] = v
        elif isinstance(t, (ast.Tuple, ast.List)) and self.spread(value_node) is not None \
                and len(self.spread(value_node)) == len(t.elts) and any(isinstance(x, ast.Starred) for x in value_node.elts):
            from ..astutil import substitute as _subst
            for tt, (expr, binds) in zip(t.elts, self.spread(value_node)):
                elt = _subst(expr, binds) if binds else expr
                self._map_back(expr, elt, set(binds))
                assign(tt, ev(elt, env), elt, env)
        elif isinstance(t, (ast.Tuple, ast.List)):
            # element-wise forms: `a, b = x, y`, `a, b = (f(m) for m in (x, y))`, `a, b = x.align(y, fill_value=0)`
            if isinstance(value_node, (ast.Tuple, ast.List)) and len(value_node.elts) == len(t.elts):
                for tt, vv in zip(t.elts, value_node.elts):
                    assign(tt, ev(vv, env), vv, env)
            elif isinstance(value_node, ast.GeneratorExp) and len(value_node.generators) == 1 \
                    and not value_node.generators[0].ifs and isinstance(value_node.generators[0].target, ast.Name) \
                    and isinstance(value_node.generators[0].iter, (ast.Tuple, ast.List)) \
                    and len(value_node.generators[0].iter.elts) == len(t.elts):
                g = value_node.generators[0]
                from ..astutil import substitute as _subst
                for tt, src in zip(t.elts, g.iter.elts):
                    elt = _subst(value_node.elt, {g.target.id: src})     # the element with the variable spelled out
                    self._map_back(value_node.elt, elt, {g.target.id})
                    assign(tt, ev(elt, env), elt, env)
            elif isinstance(value_node, ast.Call) and isinstance(value_node.func, ast.Attribute) and value_node.func.attr == "align" \
                    and len(value_node.args) == 1 and len(t.elts) == 2 \
                    and all(self.zero(k.value) for k in value_node.keywords if k.arg == "fill_value"):
                ix = f"aligned@{value_node.lineno}:{value_node.col_offset}"
                for tt, src in zip(t.elts, (value_node.func.value, value_node.args[0])):
                    assign(tt, {(i, u, ix) for i, u, _ in ev(src, env)}, None, env)
            else:
                for tt in t.elts:
                    assign(tt, set(v), None, env)
        elif v:
            self.escaped.update(i for i, _, _ in v)

    def index_facts(self, test):
        """pairs of index texts a test establishes as equal when it holds: `A.equals(B)` as the test or one of its
        `and`-ed parts, also behind a small helper of the class"""
        from ..astutil import straightline_value
        out = set()
        parts = test.values if isinstance(test, ast.BoolOp) and isinstance(test.op, ast.And) else [test]
        for p in parts:
            if isinstance(p, ast.Call) and self.find_method is not None:
                v = straightline_value(p, self.find_method)
                if v is not None:
                    out |= self.index_facts(v)
                    continue
            if isinstance(p, ast.Call) and isinstance(p.func, ast.Attribute) and p.func.attr == "equals" and len(p.args) == 1:
                out.add(frozenset((norm(self._exp(p.func.value)), norm(self._exp(p.args[0])))))
        return out

    def run(self, stmts, env):
        """the environments at the end of stmts, one per path through its branches (paths that return / raise end
        there); beyond 64 paths they are joined into one"""
        envs = [env]
        for st in stmts:
            nxt = []
            for e in envs:
                nxt += self.step(st, e)
            if len(nxt) > 64:
                joined = {}
                for e in nxt:
                    for k, v in e.items():
                        if k != "__facts__":
                            joined[k] = self._flat(joined.get(k, set())) | self._flat(v)
                nxt = [joined]
            envs = nxt
            if not envs:
                break
        return envs

    def call_helper(self, call, env):
        """[(value, facts)] for a call `self.<helper>(args)` of a same-class method evaluated in place, one entry per path
        through the helper that returns; value is a set of triples or a record {field: set}. None when the call is not
        such a helper (or the depth limit is reached)."""
        if not (isinstance(call, ast.Call) and isinstance(call.func, ast.Attribute) and isinstance(call.func.value, ast.Name)
                and call.func.value.id == "self" and self.find_method is not None and self.depth < 2):
            return None
        h = self.find_method(call.func.attr)
        if h is None or h is self.fn or any("property" in norm(d) for d in h.decorator_list) \
                or not any(self.sink_of(x) is not None for x in ast.walk(h)):
            return None
        from ..astutil import helper_view, expanded as _exp_h
        hv = helper_view(h, call)
        self._map_back(h, hv, {a.arg for a in h.args.args})
        saved = (self.collect, self._exp, self.depth)
        self.collect, self.depth = [], self.depth + 1
        self._exp = lambda e, _hv=hv: _exp_h(e, _hv)
        start = {"__facts__": env.get("__facts__", frozenset())}
        # what the arguments carry is visible under the parameter names that the view kept (names that are tainted
        # locals of the caller stay themselves after substitution)
        for k_, v_ in env.items():
            if k_ != "__facts__":
                start[k_] = v_
        try:
            self.run(hv.body, start)
            rets = self.collect
        finally:
            self.collect, self._exp, self.depth = saved
        out = []
        for rv, renv in rets:
            if isinstance(rv, ast.Call) and isinstance(rv.func, ast.Name) and rv.func.id in self.records \
                    and not any(isinstance(a_, ast.Starred) for a_ in rv.args):
                names = self.records[rv.func.id]
                rec = {}
                # (the record's arguments are evaluated in the helper's terms)
                keep = self._exp
                self._exp = lambda e, _hv=hv: _exp_h(e, _hv)
                try:
                    for n_, a_ in zip(names, rv.args):
                        rec[n_] = self.ev(a_, renv)
                    for k_ in rv.keywords:
                        if k_.arg:
                            rec[k_.arg] = self.ev(k_.value, renv)
                finally:
                    self._exp = keep
                out.append(({"__rec__": rec}, renv.get("__facts__", frozenset())))
            else:
                keep = self._exp
                self._exp = lambda e, _hv=hv: _exp_h(e, _hv)
                try:
                    out.append((self.ev(rv, renv) if rv is not None else set(), renv.get("__facts__", frozenset())))
                finally:
                    self._exp = keep
        return out

    def step(self, st, env):
        ev, kill, assign, run = self.ev, self.kill, self.assign, self.run
        if isinstance(st, ast.Assign) and len(st.targets) == 1 and isinstance(st.targets[0], ast.Name):
            paths = self.call_helper(st.value, env)
            if paths is not None:
                outs = []
                for val, facts in paths:
                    e2 = dict(env)
                    e2["__facts__"] = frozenset(env.get("__facts__", ())) | frozenset(facts)
                    e2[st.targets[0].id] = val
                    outs.append(e2)
                return outs or [env]
        if isinstance(st, ast.Assign):
            structured = isinstance(st.targets[0], (ast.Tuple, ast.List)) and (
                isinstance(st.value, (ast.Tuple, ast.List, ast.GeneratorExp)) or (
                    isinstance(st.value, ast.Call) and isinstance(st.value.func, ast.Attribute) and st.value.func.attr == "align"))
            v = set() if structured else ev(st.value, env)
            for t in st.targets:
                assign(t, v, st.value, env)
        elif isinstance(st, ast.AugAssign):
            v = ev(st.value, env)
            if isinstance(st.target, ast.Name) and isinstance(st.op, (ast.Add, ast.Sub)) and v and env.get(st.target.id):
                env[st.target.id] = self.combine(st, [env[st.target.id], v], env)
            elif v:
                self.escaped.update(i for i, _, _ in v)
        elif isinstance(st, ast.If):
            if ev(st.test, env):
                kill(st.test, env)
            e1 = dict(env)
            e1["__facts__"] = frozenset(env.get("__facts__", ())) | frozenset(self.index_facts(st.test))
            return run(st.body, e1) + run(st.orelse, dict(env))
        elif isinstance(st, (ast.For, ast.While)):
            if isinstance(st, ast.For) and ev(st.iter, env):
                kill(st.iter, env)
            envs = [env]
            for _ in range(2):
                envs = [e2 for e in envs for e2 in run(st.body, dict(e))] or [env]
            joined = dict(env)
            for e in envs:
                for k, v in e.items():
                    if k != "__facts__":
                        joined[k] = v if isinstance(v, dict) and k not in env else self._flat(joined.get(k, ())) | self._flat(v)
            return run(st.orelse, joined)
        elif isinstance(st, ast.Try):
            out = run(st.body, dict(env))
            for h in st.handlers:
                out += run(h.body, dict(env))
            out = [e2 for e in out for e2 in run(st.orelse, e)] if st.orelse else out
            return [e2 for e in out for e2 in run(st.finalbody, e)] if st.finalbody else out
        elif isinstance(st, ast.With):
            return run(st.body, env)
        elif isinstance(st, ast.Expr):
            v = ev(st.value, env)
            if v:
                self.escaped.update(i for i, _, _ in v)
        elif isinstance(st, ast.Return):
            if self.collect is not None:
                self.collect.append((st.value, dict(env)))      # a helper evaluated in place: the caller goes on with it
                return []
            if st.value is not None:
                v = ev(st.value, env)
                if v:
                    # handed back to the caller: judged where the function is called
                    self.returned.update(i for i, _, _ in v)
                for x in ast.walk(st.value):
                    if isinstance(x, ast.Name) and isinstance(env.get(x.id), dict):
                        self.returned.update(i for i, _, _ in self._flat(env[x.id]))
            return []
        elif isinstance(st, (ast.Raise, ast.Assert)):
            for ch in ast.iter_child_nodes(st):
                if isinstance(ch, ast.expr) and ev(ch, env):
                    kill(ch, env)
            if isinstance(st, ast.Raise):
                return []
        elif isinstance(st, (ast.Continue, ast.Break)):
            return [env]
        return [env]


def _magnitude_flow(fn, sink_of, tables=None, find_method=None, records=None):
    mf = MagnitudeFlow(fn, sink_of, tables, find_method, records)
    return mf.ok, mf.escaped


def module_record_classes(tree):
    """{class name: field names in order} for the NamedTuple / dataclass classes and namedtuple(...) assignments of a module"""
    out = {}
    for st in tree.body:
        if isinstance(st, ast.ClassDef) and (any(norm(b).split(".")[-1] == "NamedTuple" for b in st.bases)
                                             or any("dataclass" in norm(d) for d in st.decorator_list)):
            out[st.name] = st          # the class itself: its fields, properties and methods
        if isinstance(st, ast.Assign) and len(st.targets) == 1 and isinstance(st.targets[0], ast.Name) \
                and isinstance(st.value, ast.Call) and norm(st.value.func).split(".")[-1] == "namedtuple" and len(st.value.args) >= 2:
            spec = st.value.args[1]
            out[st.targets[0].id] = [x.value for x in spec.elts if isinstance(x, ast.Constant)] \
                if isinstance(spec, (ast.List, ast.Tuple)) else str(getattr(spec, "value", "")).replace(",", " ").split()
    return out


def package_record_classes(pm):
    """the record classes of every module of the package (a value class may live next to the values it describes and be
    used from the update machinery)"""
    out = {}
    for m, (r, t, _) in pm.modules.items():
        for k, v in module_record_classes(t).items():
            out.setdefault(k, v)
    return out


def module_dict_tables(tree):
    return {st_.targets[0].id: st_.value for st_ in tree.body if isinstance(st_, ast.Assign)
            and len(st_.targets) == 1 and isinstance(st_.targets[0], ast.Name) and isinstance(st_.value, ast.Dict)}


def _strip(e):
    """receiver of an extraction without the pandas plumbing"""
    while True:
        if isinstance(e, ast.Attribute) and e.attr in ("values", "pint", "data", "_data"):
            e = e.value
        elif isinstance(e, ast.Subscript):
            e = e.value
        else:
            return e


def _is_display(rel, fn):
    if any(d in rel for d in DISPLAY_FILES):
        return True
    x = fn
    while x is not None:
        if isinstance(x, ast.FunctionDef) and x.name in DISPLAY_FUNCS:
            return True
        x = getattr(x, "_parent", None)
    return False


@rule("R-MAG")
def r_mag(E):
    pm = E.pm
    res = RuleResult("R-MAG", "every extraction of a bare number from a unit-carrying value (.magnitude, .m, ._data, "
                              ".values.data, .to_numpy()) has a receiver in a statically fixed unit, or sits in a "
                              "scale-invariant context (comparison with 0, equivariant re-wrap in the receiver's own "
                              "unit, value emitted next to its unit); ceil/round need a fixed unit at each call site")
    UN = Units(pm)
    counts = {}
    # private single-expression accessors / builders (`self._magnitudes`, `self._new_df(x)`) read as the expression they
    # stand for: their own body is not a site, every use is
    from ..astutil import inline_private_exprs, _single_return
    views, accessors = {}, set()
    for mod, (rel, tree, src) in sorted(pm.modules.items()):
        views[mod], used = inline_private_exprs(tree, pm.helper_finder)
        accessors |= used
    accessor_names = {h for _, h in accessors}
    # a local that merely names the receiver's unit (`own_unit = self.unit`) reads as the unit itself
    from ..astutil import aliases as _aliases, substitute_stmt as _sub_stmt
    for mod in views:
        touched = False
        for f_ in [x for x in ast.walk(views[mod]) if isinstance(x, ast.FunctionDef)]:
            al = {k: v for k, v in _aliases(f_).items() if norm(v).endswith((".unit", ".units")) and norm(v).startswith("self.")}
            if not al:
                continue

            def strip(stmts):
                out = []
                for st in stmts:
                    if isinstance(st, ast.Assign) and len(st.targets) == 1 and isinstance(st.targets[0], ast.Name) \
                            and st.targets[0].id in al:
                        continue
                    for field in ("body", "orelse", "finalbody"):
                        sub = getattr(st, field, None)
                        if isinstance(sub, list) and sub and isinstance(sub[0], ast.stmt):
                            setattr(st, field, strip(sub))
                    out.append(st)
                return out
            f_.body = [_sub_stmt(b, al) for b in strip(f_.body)]
            touched = True
        if touched:
            for n_ in ast.walk(views[mod]):
                for ch in ast.iter_child_nodes(n_):
                    ch._parent = n_
    for mod, (rel, tree0, src) in sorted(pm.modules.items()):
        tree = views[mod]
        sink_of = lambda n_, _an=accessor_names: default_sink_of(n_, _an)
        flow_memo = {}
        for n in ast.walk(tree):
            sink = sink_of(n)
            if sink is None:
                continue
            if isinstance(sink, ast.Attribute) and sink.attr == "m" and not isinstance(getattr(sink, "ctx", None), ast.Load):
                continue
            fn, cls = UN.enclosing(n)
            if fn is None:
                continue
            if _is_display(rel, fn):
                counts["display (excluded)"] = counts.get("display (excluded)", 0) + 1
                continue
            q = f"{cls.name}.{fn.name}" if cls is not None else fn.name
            if cls is not None and fn.name in accessor_names and _single_return(fn) is not None:
                counts["private accessor (checked at its uses)"] = counts.get("private accessor (checked at its uses)", 0) + 1
                continue
            if cls is not None and (cls.name, fn.name) in EXEMPT:
                res.notes.append(f"{q}: exempt — {EXEMPT[(cls.name, fn.name)]}")
                counts["exempt accessor"] = counts.get("exempt accessor", 0) + 1
                continue
            res.instances += 1
            from ..astutil import expanded as _expanded
            recv = _expanded(sink.value, fn)
            verdict = None
            # 1. receiver in a fixed unit
            u = UN.unit_of(recv, fn, cls)
            if u is not None and u[1] != "self.unit":
                verdict = f"fixed unit {u[1]}"
            # 2. compared with zero
            par = getattr(n, "_parent", None)
            top = n
            while isinstance(par, (ast.Attribute, ast.Call)) and not isinstance(par, ast.Compare):
                top, par = par, getattr(par, "_parent", None)
            if verdict is None and isinstance(par, ast.Compare) and len(par.comparators) == 1:
                other = par.comparators[0] if par.left is top else par.left
                if isinstance(other, ast.Constant) and other.value == 0:
                    verdict = "sign / zero test (scale-invariant)"
            # 2b. … compared with zero by a comparison picked from a class-level table of operator functions:
            #     sign_test = self.SIGN_TESTS[kind] … sign_test(x.magnitude, 0)
            if verdict is None:
                pc = n
                while pc is not None and not (isinstance(pc, ast.Call) and isinstance(pc.func, ast.Name)) \
                        and not isinstance(pc, ast.stmt):
                    pc = getattr(pc, "_parent", None)
                if isinstance(pc, ast.Call) and isinstance(pc.func, ast.Name) and len(pc.args) == 2 and not pc.keywords \
                        and any(isinstance(a_, ast.Constant) and a_.value == 0 for a_ in pc.args) and cls is not None:
                    from ..astutil import single_assignments as _sa_m
                    bound = _sa_m(fn).get(pc.func.id)
                    tab = bound.value if isinstance(bound, ast.Subscript) else (
                        bound.func.value if isinstance(bound, ast.Call) and isinstance(bound.func, ast.Attribute)
                        and bound.func.attr == "get" else None)
                    if isinstance(tab, ast.Attribute) and isinstance(tab.value, ast.Name) and tab.value.id in ("self", "cls"):
                        _, tv = pm._class_const(cls.name, tab.attr)
                        if isinstance(tv, ast.Dict) and tv.values and all(
                                isinstance(x_, ast.Attribute) and isinstance(x_.value, ast.Name) and x_.value.id == "operator"
                                and x_.attr in ("ge", "gt", "le", "lt", "eq", "ne") for x_ in tv.values):
                            verdict = "sign / zero test through a table of comparison operators (scale-invariant)"
            # 3. value emitted next to its own unit (serialisation)
            if verdict is None:
                d = n
                while d is not None and not isinstance(d, (ast.Dict, ast.FunctionDef)):
                    d = getattr(d, "_parent", None)
                if isinstance(d, ast.Dict) and any(isinstance(k, ast.Constant) and k.value == "unit" for k in d.keys):
                    verdict = "emitted together with str(units) (serialisation)"
            # 4. equivariant operation re-wrapped in the receiver's own unit
            if verdict is None:
                wrap = n
                while wrap is not None and not (isinstance(wrap, ast.Call) and norm(wrap.func) == "pint_pandas.PintArray"):
                    wrap = getattr(wrap, "_parent", None)
                local_target = None
                if wrap is None:
                    st = n
                    while st is not None and not isinstance(st, ast.Assign):
                        st = getattr(st, "_parent", None)
                    if st is not None and isinstance(st.targets[0], ast.Name):
                        local_target = st.targets[0].id
                        # the local flows into a PintArray(..., dtype=self.unit) through np.maximum / np.minimum
                        for w in ast.walk(fn):
                            if isinstance(w, ast.Call) and norm(w.func) == "pint_pandas.PintArray" and any(
                                    k.arg == "dtype" and norm(k.value) == "self.unit" for k in w.keywords):
                                srcs = {x.id for x in ast.walk(w) if isinstance(x, ast.Name)}
                                flows = {local_target}
                                for a in ast.walk(fn):
                                    if isinstance(a, ast.Assign) and isinstance(a.targets[0], ast.Name) and any(
                                            isinstance(x, ast.Name) and x.id in flows for x in ast.walk(a.value)):
                                        from ..astutil import callee_texts
                                        ops = set()
                                        for c in ast.walk(a.value):
                                            if isinstance(c, ast.Call):
                                                # index plumbing keeps the magnitudes: x.reindex(…), x.to_numpy(), x.fillna(0)
                                                if isinstance(c.func, ast.Attribute) and c.func.attr in ("reindex", "to_numpy", "fillna") \
                                                        and not (isinstance(c.func.value, ast.Name) and c.func.value.id == "np"):
                                                    continue
                                                ops |= callee_texts(c, fn)
                                        if ops <= {"np.maximum", "np.minimum"}:
                                            flows.add(a.targets[0].id)
                                # the wrapped expression itself may be the element-wise max / min of the flows
                                wops = set()
                                for c in ast.walk(w):
                                    if isinstance(c, ast.Call) and c is not w:
                                        from ..astutil import callee_texts
                                        wops |= callee_texts(c, fn)
                                if not wops <= {"np.maximum", "np.minimum"}:
                                    continue
                                if srcs & flows:
                                    own = "self" in norm(_strip(recv)) or ".to(self.unit)" in norm(recv)
                                    if own:
                                        verdict = "element-wise max/min re-wrapped in the receiver's own unit (equivariant)"
                if wrap is not None and any(k.arg == "dtype" and norm(k.value) == "self.unit" for k in wrap.keywords) \
                        and norm(_strip(recv)).startswith("self.value"):
                    ops = [c.func.attr for c in ast.walk(wrap) if isinstance(c, ast.Call) and isinstance(c.func, ast.Attribute)
                           and isinstance(c.func.value, ast.Name) and c.func.value.id == "np"]
                    if all(o in EQUIVARIANT_NP for o in ops):
                        verdict = "equivariant operation re-wrapped in the receiver's own unit"
                    elif all(o in EQUIVARIANT_NP | UNIT_PARAMETRIC_NP for o in ops):
                        verdict = f"unit-parametric ({'/'.join(ops)}): checked at each call site"
            # 5. the bare numbers flow, through equivariant operations only (index alignment with zero fill, +, -,
            #    element-wise max / min / abs), into a PintArray in the very unit they were taken in
            if verdict is None:
                if "all" not in flow_memo:
                    # the flows of every function of this module (an extraction made in a helper that hands the arrays
                    # back — `magnitudes_aligned_with(other)` returning a record of arrays — is judged in the functions
                    # that call the helper, where the helper is evaluated in place)
                    ok_all, esc_all = {}, set()
                    recs = module_record_classes(tree)
                    tabs = module_dict_tables(tree)
                    for f_ in [x for x in ast.walk(tree) if isinstance(x, ast.FunctionDef)]:
                        if not any(sink_of(y) is not None for y in ast.walk(f_)) and not any(
                                isinstance(y, ast.Call) and isinstance(y.func, ast.Attribute) and norm(y.func.value) == "self"
                                for y in ast.walk(f_)):
                            continue
                        c_ = getattr(f_, "_parent", None)
                        # (helpers are looked up in this view of the module first: the sites judged are its nodes)
                        finder_ = None
                        if isinstance(c_, ast.ClassDef):
                            own_ = {m_.name: m_ for m_ in c_.body if isinstance(m_, ast.FunctionDef)}
                            finder_ = lambda nm_, _o=own_, _p=pm.helper_finder(c_.name): _o.get(nm_) or _p(nm_)
                        mf_ = MagnitudeFlow(f_, sink_of, tabs, finder_, recs)
                        ok_all.update(mf_.ok)
                        esc_all |= mf_.escaped
                    flow_memo["all"] = (ok_all, esc_all)
                ok_sites, escaped = flow_memo["all"]
                if id(n) in ok_sites and id(n) not in escaped:
                    verdict = f"flows through equivariant operations into a PintArray in the unit it was taken in ({ok_sites[id(n)]})"
            key = f"{rel}:{q} :: {norm(n if isinstance(n, ast.Attribute) else n)[:90]}"
            if verdict is None:
                res.findings.append(Finding(
                    "R-MAG", key,
                    f"{q} takes a bare number out of `{norm(recv)[:70]}` while its unit is whatever the input was typed "
                    f"in: the result changes when the same quantity is expressed in another unit (GB/MB, years/days…)",
                    rel, n.lineno, q, {"clauses": ["all"] + (["operators"] if rel.endswith("explainable_objects.py") else []) + (["infra"] if "core/hardware/" in rel else []) + (["update"] if rel.endswith("modeling_update.py") else [])}))
            else:
                counts[verdict.split(" (")[0][:40]] = counts.get(verdict.split(" (")[0][:40], 0) + 1
                if len(res.samples) < 8:
                    res.samples.append({"site": f"{rel}:{int(n.lineno)} {q}", "extraction": norm(n)[:80], "verdict": verdict})
    # call sites of the unit-parametric methods in model code
    for mod, (rel, tree, src) in sorted(pm.modules.items()):
        if not (rel.startswith("efootprint/core") or rel.startswith("efootprint/builders")):
            continue
        for n in ast.walk(tree):
            recv = None
            if isinstance(n, ast.Call) and isinstance(n.func, ast.Attribute) and n.func.attr in ("ceil", "round") \
                    and not (isinstance(n.func.value, ast.Name) and n.func.value.id in ("np", "math")):
                recv = n.func.value
            if isinstance(n, ast.Call) and isinstance(n.func, ast.Name) and n.func.id == "round" and n.args:
                recv = n.args[0]
                # round(<q>.to(<unit>).magnitude, n): the number rounded is the magnitude of <q> in that unit
                while isinstance(recv, ast.Attribute) and recv.attr in ("magnitude", "m"):
                    recv = recv.value
            if recv is None:
                continue
            fn, cls = UN.enclosing(n)
            if fn is None or _is_display(rel, fn) or cls is None:
                continue
            # only roundings of model values: the receiver (through its local definitions) reads self.<attr>
            names, todo, from_self = set(), [recv], False
            while todo:
                x = todo.pop()
                for y in ast.walk(x):
                    if isinstance(y, ast.Attribute) and isinstance(y.value, ast.Name) and y.value.id == "self":
                        from_self = True
                    if isinstance(y, ast.Name) and y.id not in names:
                        names.add(y.id)
                        todo += [d for d in UN.local_defs(fn, y.id) if d is not None]
            if not from_self:
                continue
            res.instances += 1
            q = f"{cls.name}.{fn.name}" if cls is not None else fn.name
            u = UN.unit_of(recv, fn, cls)
            if u is None:
                res.findings.append(Finding(
                    "R-MAG", f"{rel}:{q} :: {norm(n)[:90]} call-site unit",
                    f"{q} rounds `{norm(recv)[:60]}` whose unit is not statically fixed: ceil/round of 0.5 TB and of "
                    f"500 GB differ, so the result depends on the unit the input was typed in", rel, n.lineno, q,
                    {"clauses": ["all"] + (["operators"] if rel.endswith("explainable_objects.py") else []) + (["infra"] if "core/hardware/" in rel else []) + (["update"] if rel.endswith("modeling_update.py") else [])}))
            elif len(res.samples) < 12:
                res.samples.append({"site": f"{rel}:{int(n.lineno)} {q}", "rounding": norm(n)[:70], "receiver_unit": u[1]})
    # comparisons with an absolute tolerance: np.isclose / np.allclose add atol (1e-8 by default) to bare magnitudes, taken
    # in the unit of the first operand; math.isclose does so when abs_tol is given. A tolerance of 1e-8 "of whatever
    # unit was typed" makes the answer depend on that unit (8e-13 s and 1.6e-12 s are "close", 0.8 ps and 1.6 ps are not)
    for mod, (rel, tree, src) in sorted(pm.modules.items()):
        for n in ast.walk(tree):
            if not (isinstance(n, ast.Call) and len(n.args) >= 2):
                continue
            ft = norm(n.func)
            last = ft.rsplit(".", 1)[-1]
            if last not in ("isclose", "allclose", "assert_allclose"):
                continue
            kws = {k.arg: k.value for k in n.keywords}
            if ft.startswith("math.") or ft == "isclose" and "abs_tol" in kws:
                tol = kws.get("abs_tol")
            else:
                tol = kws.get("atol", n.args[3] if len(n.args) >= 4 else "default")
            if tol is None or (isinstance(tol, ast.Constant) and tol.value == 0):
                continue      # purely relative: scale-invariant
            fn, cls = UN.enclosing(n)
            if fn is None or _is_display(rel, fn):
                continue
            res.instances += 1
            q = f"{cls.name}.{fn.name}" if cls is not None else fn.name
            us = [UN.unit_of(_strip(a.value) if isinstance(a, ast.Attribute) and a.attr == "value" else a, fn, cls)
                  for a in n.args[:2]]
            if any(u_ is not None and u_[1] != "self.unit" for u_ in us):
                counts["absolute tolerance on a fixed unit"] = counts.get("absolute tolerance on a fixed unit", 0) + 1
                continue
            res.findings.append(Finding(
                "R-MAG", f"{rel}:{q} :: {norm(n)[:90]} absolute tolerance",
                f"{q} compares `{norm(n.args[0])[:40]}` and `{norm(n.args[1])[:40]}` with an absolute tolerance "
                f"({'the default atol=1e-8' if tol == 'default' else norm(tol)}) applied to the bare magnitudes in whatever unit "
                f"the first operand was typed in: two values are 'equal' in one unit and different in another", rel,
                n.lineno, q, {"clauses": ["all"] + (["operators"] if rel.endswith("explainable_objects.py") else []) + (["infra"] if "core/hardware/" in rel else []) + (["update"] if rel.endswith("modeling_update.py") else [])}))
    res.breakdown = counts
    res.floor = 26
    return res
