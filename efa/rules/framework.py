"""Updates as transactions, simulations, bookkeeping: R-TXN, R-MIRROR, R-ZIP, R-SNAP, R-ENTRY, R-EDGE, R-ID, R-GUARD,
R-REV, R-PUREVIEW (DESIGN §5.A, §5.D, §5.E)."""
import ast

from . import rule
from ..frontend import AnalysisError, norm, is_property
from ..report import Finding, RuleResult
from ..interp import Cx

MU = "abstract_modeling_classes/modeling_update.py"
MO = "abstract_modeling_classes/modeling_object.py"
OL = "abstract_modeling_classes/object_linked_to_modeling_obj.py"
EB = "abstract_modeling_classes/explainable_object_base_class.py"
ED = "abstract_modeling_classes/explainable_object_dict.py"
CM = "abstract_modeling_classes/contextual_modeling_object_attribute.py"
LL = "abstract_modeling_classes/list_linked_to_modeling_obj.py"

MUT_PRIMS = {"replace_in_mod_obj_container_without_recomputation", "set_modeling_obj_container", "update_function"}
RAISE_PRIMS = {"check_belonging_to_authorized_values": "val", "check_input_value_type_positivity_and_unit": "val",
               "update_function": "recompute"}


def _calls(node):
    """calls inside a statement in source order"""
    out = [n for n in ast.walk(node) if isinstance(n, ast.Call)]
    out.sort(key=lambda c: (c.lineno, c.col_offset))
    return out


def _self_method_call(c):
    if isinstance(c.func, ast.Attribute) and isinstance(c.func.value, ast.Name) and c.func.value.id == "self":
        return c.func.attr
    return None


KNOWN_UPDATE_PHASES = {
    "__init__", "parse_changes_list", "compute_mod_objs_computation_chain", "apply_changes", "rollback",
    "make_simulation_specific_operations", "recompute_attributes", "old_sourcevalues", "new_sourcevalues",
    "generate_optimized_attr_updates_chain", "compute_ancestors_not_in_computation_chain",
    "compute_hourly_quantities_to_filter", "filter_hourly_quantities_to_filter",
    "replace_ancestors_not_in_computation_chain_by_copies", "reset_values", "set_updated_values",
    "link_simulated_and_baseline_twins"}


class TxnAnalysis:
    """Summaries and ordered walk over the methods of ModelingUpdate."""

    def __init__(self, pm):
        self.pm = pm
        self.rel, self.cls = pm.find_function(MU, "ModelingUpdate")
        self.methods = {f.name: f for f in self.cls.body if isinstance(f, ast.FunctionDef)}
        # the constructor read with its *new* steps spliced in: a method that is not one of the known phases of an update
        # (the names below are the ones the rules reason about) and that the constructor calls as a statement is a piece
        # of the constructor split out for readability (`self.register_changes(changes_list)`)
        from ..astutil import inline_helpers as _ih
        steps = {n: f for n, f in self.methods.items() if n not in KNOWN_UPDATE_PHASES and not is_property(f)}
        if steps and "__init__" in self.methods:
            ini = self.methods["__init__"]
            called = set()
            for _ in range(2):
                # only what the constructor calls as a top-level statement of its own body (a call inside its try / except
                # — the restore — is a phase, whatever its name)
                top = {st.value.func.attr for st in ini.body if isinstance(st, ast.Expr) and isinstance(st.value, ast.Call)
                       and isinstance(st.value.func, ast.Attribute) and norm(st.value.func.value) == "self"}
                called |= top
                ini = _ih(ini, lambda name, _t=top: steps.get(name) if name in _t else None, max_body=60)
            self.methods["__init__"] = ini
            # a step that was spliced in (it returns nothing and is only called by the constructor) is no method of its own
            for name in called & set(steps):
                h = steps[name]
                if not any(isinstance(x, ast.Return) and x.value is not None for x in ast.walk(h)) \
                        and sum(1 for m_ in self.cls.body if isinstance(m_, ast.FunctionDef) for c in ast.walk(m_)
                                if isinstance(c, ast.Attribute) and c.attr == name) == 1:
                    self.methods.pop(name, None)
        self._mut, self._raise = {}, {}

    def summary(self, name, table, prims, seen=None):
        if name in table:
            return table[name]
        seen = seen or set()
        if name in seen or name not in self.methods:
            return False
        seen.add(name)
        fn = self.methods[name]
        res = False
        for n in ast.walk(fn):
            if isinstance(n, ast.Call) and isinstance(n.func, ast.Attribute) and n.func.attr in prims:
                res = True
            if isinstance(n, ast.Attribute) and n.attr in prims and n.attr == "update_function":
                res = True
            if prims is RAISE_PRIMS and isinstance(n, ast.Raise):
                res = True
            if isinstance(n, ast.Call):
                m = _self_method_call(n)
                if m and m in self.methods and self.summary(m, table, prims, seen):
                    res = True
                # a function of the module, called by name or handed to map(): what it does, the caller does
                cands = []
                if isinstance(n.func, ast.Name):
                    cands.append(n.func.id)
                    if n.func.id == "map" and n.args and isinstance(n.args[0], ast.Name):
                        cands.append(n.args[0].id)
                    if n.func.id == "map" and n.args and isinstance(n.args[0], ast.Attribute) and norm(n.args[0].value) == "self" \
                            and n.args[0].attr in self.methods and self.summary(n.args[0].attr, table, prims, seen):
                        res = True
                for cname in cands:
                    h = self._module_function(cname)
                    if h is not None and ("<fn>" + cname) not in seen:
                        seen.add("<fn>" + cname)
                        for x in ast.walk(h):
                            if isinstance(x, ast.Call) and isinstance(x.func, ast.Attribute) and x.func.attr in prims:
                                res = True
                            if prims is RAISE_PRIMS and isinstance(x, ast.Raise):
                                res = True
            if isinstance(n, ast.Attribute) and isinstance(n.value, ast.Name) and n.value.id == "self" \
                    and n.attr in self.methods and is_property(self.methods[n.attr]) \
                    and self.summary(n.attr, table, prims, seen):
                res = True
        table[name] = res
        return res

    def _module_function(self, name):
        if getattr(self, "_ff", None) is None:
            self._ff = self.pm.function_finder(self.rel)
        try:
            return self._ff(name)
        except Exception:
            return None

    def is_mut(self, name):
        return self.summary(name, self._mut, MUT_PRIMS)

    def may_raise(self, name):
        return self.summary(name, self._raise, RAISE_PRIMS)

    def restores(self, name):
        """method contains a loop that re-installs values with replace_in_mod_obj_container_without_recomputation"""
        fn = self.methods.get(name)
        if fn is None:
            return False
        # (the loop may sit in a module-level helper of modeling_update.py that the method hands its lists to)
        from ..astutil import nodes_through_helpers as _nth
        try:
            nodes = _nth(fn, lambda nm: self.methods.get(nm) if nm != name else None, depth=2,
                         find_function=self.pm.function_finder(self.rel))
        except Exception:
            nodes = list(ast.walk(fn))
        for n in nodes:
            if isinstance(n, (ast.For, ast.While)):
                for c in ast.walk(n):
                    if isinstance(c, ast.Call) and isinstance(c.func, ast.Attribute) \
                            and c.func.attr == "replace_in_mod_obj_container_without_recomputation":
                        return True
        return False


def _composite_attributes(init):
    """{attribute: self attributes it holds} for `self.X = <tuple / list / dict literal>` in the constructor whose
    elements (at any depth of literal nesting, or inside comprehensions over them) are `self.<attr>` references"""
    out = {}
    if init is None:
        return out
    for n in ast.walk(init):
        if isinstance(n, ast.Assign) and len(n.targets) == 1 and isinstance(n.targets[0], ast.Attribute) \
                and norm(n.targets[0].value) == "self" and isinstance(n.value, (ast.Tuple, ast.List, ast.Dict)):
            held = {x.attr for x in ast.walk(n.value) if isinstance(x, ast.Attribute) and isinstance(x.value, ast.Name)
                    and x.value.id == "self"}
            if held:
                out[n.targets[0].attr] = held
    return out


def _return_only_without_simulation(ret, init):
    """an early `return` of the constructor that can only be taken when there is no simulation date (nothing to reset)"""
    from ..astutil import path_conditions
    from ..paths import path_formula, implies, parse
    try:
        F = path_formula(path_conditions(ret, init), init)
        return implies(F, parse("simulation_date is None")) or implies(F, parse("self.simulation_date is None"))
    except Exception:
        return False


def _undo_stack_protocol(T, with_stmt):
    """`with self.<stack>:` around the constructor's steps, <stack> an ExitStack of the update object on which every
    replacement pushes its own undo: (stack attribute, restoring method, problems). None when the with statement is not of
    that kind. The protocol holds when
      * the stack is an ExitStack created once per update (a cached property / an attribute set in the constructor);
      * every replacement in the methods of the class (X.replace…(Y), V.update_function()) is followed, in the same block and
        before anything else that may raise, by `self.<stack>.callback(self.<undo>, X, Y)` — the method itself, its
        arguments bound now (a lambda would read the loop variables when the stack unwinds);
      * <undo>(previous, new) re-installs `previous` in place of `new`;
      * the undos are only dropped (pop_all) as the last step of the with body."""
    stack = None
    for it in with_stmt.items:
        e = it.context_expr
        if isinstance(e, ast.Attribute) and isinstance(e.value, ast.Name) and e.value.id == "self":
            m = T.methods.get(e.attr)
            made = False
            if m is not None and any("property" in norm(d) for d in m.decorator_list):
                rets = [r.value for r in ast.walk(m) if isinstance(r, ast.Return) and r.value is not None]
                made = bool(rets) and all(isinstance(r, ast.Call) and norm(r.func).split(".")[-1] == "ExitStack" for r in rets)
                cached = any("cached_property" in norm(d) for d in m.decorator_list)
                if made and not cached:
                    return e.attr, None, [f"self.{e.attr} builds a new ExitStack at every access: the undos are pushed on "
                                          f"stacks that nobody unwinds"]
            else:
                init = T.methods.get("__init__")
                made = init is not None and any(
                    isinstance(a, ast.Assign) and any(norm(t) == f"self.{e.attr}" for t in a.targets)
                    and isinstance(a.value, ast.Call) and norm(a.value.func).split(".")[-1] == "ExitStack" for a in ast.walk(init))
            if made:
                stack = e.attr
    if stack is None:
        return None
    problems, undo = [], None

    def is_push(c):
        return isinstance(c, ast.Call) and isinstance(c.func, ast.Attribute) and c.func.attr in ("callback", "push") \
            and norm(c.func.value) == f"self.{stack}"
    undo_names = {x.attr for fn in T.methods.values() for c in ast.walk(fn) if is_push(c) for a in c.args for x in ast.walk(a)
                  if isinstance(x, ast.Attribute) and isinstance(x.value, ast.Name) and x.value.id == "self" and x.attr in T.methods}
    for name, fn in T.methods.items():
        if name in undo_names:
            continue
        for block in [n for n in ast.walk(fn) if isinstance(n, (ast.For, ast.While, ast.If, ast.FunctionDef, ast.With, ast.Try))]:
            for field in ("body", "orelse", "finalbody"):
                stmts = getattr(block, field, None)
                if not isinstance(stmts, list):
                    continue
                for i, st in enumerate(stmts):
                    if not isinstance(st, ast.Expr) or not isinstance(st.value, ast.Call) or not isinstance(st.value.func, ast.Attribute):
                        continue
                    c = st.value
                    if c.func.attr not in ("replace_in_mod_obj_container_without_recomputation", "update_function"):
                        continue
                    if name in ("reset_values", "set_updated_values") or name == undo:
                        continue
                    old_v = norm(c.func.value)
                    new_v = norm(c.args[0]) if c.args else None
                    push = None
                    for later in stmts[i + 1:]:
                        calls = [x for x in ast.walk(later) if isinstance(x, ast.Call)]
                        if any(is_push(x) for x in calls):
                            push = next(x for x in calls if is_push(x))
                            break
                        risky = [x for x in calls if (isinstance(x.func, ast.Attribute) and (
                            x.func.attr in RAISE_PRIMS or x.func.attr in MUT_PRIMS
                            or (_self_method_call(x) in T.methods and T.may_raise(_self_method_call(x)))))] \
                            or [x for x in ast.walk(later) if isinstance(x, ast.Raise)]
                        if risky:
                            break
                    where = f"ModelingUpdate.{name}"
                    if push is None:
                        problems.append((st, where, f"`{norm(c)[:70]}` is not followed by its undo being pushed on "
                                                    f"self.{stack} (before anything else that can raise): if the update fails "
                                                    f"later, this replacement stays in the model"))
                        continue
                    if not push.args or isinstance(push.args[0], ast.Lambda):
                        problems.append((st, where, f"the undo pushed after `{norm(c)[:50]}` is a lambda: it reads its "
                                                    f"variables when the stack unwinds — after the loop, all undos put back the "
                                                    f"last pair"))
                        continue
                    um = push.args[0].attr if isinstance(push.args[0], ast.Attribute) and norm(push.args[0].value) in ("self", "type(self)", "ModelingUpdate") else None
                    if um is None or um not in T.methods:
                        problems.append((st, where, f"the undo pushed after `{norm(c)[:50]}` is not a method of the update"))
                        continue
                    undo = undo or um
                    given = [norm(a) for a in push.args[1:]]
                    if len(given) != 2 or given[0] != old_v or (new_v is not None and given[1] != new_v):
                        problems.append((st, where, f"after `{norm(c)[:60]}` the undo is pushed for ({', '.join(given)}) instead "
                                                    f"of ({old_v}, {new_v or '<the recomputed value>'})"))
    if undo is not None:
        uf = T.methods[undo]
        ps = [a.arg for a in uf.args.args if a.arg not in ("self", "cls")]
        rep = next((c for c in ast.walk(uf) if isinstance(c, ast.Call) and isinstance(c.func, ast.Attribute)
                    and c.func.attr == "replace_in_mod_obj_container_without_recomputation"), None)
        if len(ps) != 2 or rep is None or not rep.args or norm(rep.func.value) != ps[1] or norm(rep.args[0]) != ps[0]:
            problems.append((uf, f"ModelingUpdate.{undo}", f"{undo}(previous, new) does not put `previous` back in place of "
                                                           f"`new`"))
    else:
        problems.append((with_stmt, "ModelingUpdate.__init__", f"nothing is ever pushed on self.{stack}"))
    # the undos are dropped only as the very last step of the protected block
    for name, fn in T.methods.items():
        for c in ast.walk(fn):
            if isinstance(c, ast.Call) and isinstance(c.func, ast.Attribute) and c.func.attr in ("pop_all", "close") \
                    and norm(c.func.value) == f"self.{stack}":
                last = with_stmt.body[-1] if with_stmt.body else None
                if not (last is not None and any(x is c for x in ast.walk(last))):
                    problems.append((c, f"ModelingUpdate.{name}", f"self.{stack}.{c.func.attr}() is called before the protected "
                                                                  f"steps are over: a later failure has nothing left to undo"))
    return stack, undo, problems


@rule("R-TXN")
def r_txn(E):
    pm = E.pm
    res = RuleResult("R-TXN", "ModelingUpdate is a transaction: once a model value has been replaced, anything that can "
                              "raise a user-facing error (allowed-value validation, date checks, a raising update rule) "
                              "runs inside a try whose handler re-installs every replaced value and re-raises; partial "
                              "progress is visible to that handler; a simulation ends with reset_values")
    T = TxnAnalysis(pm)
    rel = T.rel
    init = T.methods.get("__init__")
    if init is None:
        raise AnalysisError("ModelingUpdate.__init__ vanished")
    findings = []
    state = {"mut": False}
    undo_state = {"stack": None, "undo": None, "with": None}
    events = []

    def clause_of(what):
        if "check_belonging" in what or "check_input_value" in what:
            return ["val", "sim"]
        if "update_function" in what or "recompute" in what:
            return ["recompute", "sim"]
        if "date" in what or "raise" in what:
            return ["date", "sim"]
        return ["sim"]

    def report(node, what, func):
        res.instances += 0
        findings.append((node, what, func))

    def walk(stmts, prot, func, depth=0):
        if depth > 8:
            return
        for s in stmts:
            if isinstance(s, ast.Try):
                handler_ok = False
                for h in s.handlers:
                    catches_all = h.type is None or (isinstance(h.type, ast.Name) and h.type.id in (
                        "Exception", "BaseException"))
                    calls = [_self_method_call(c) for c in _calls(h)]
                    reraises = any(isinstance(n, ast.Raise) for n in ast.walk(h))
                    if catches_all and reraises and any(m and T.restores(m) for m in calls):
                        handler_ok = True
                fin_ok = any(_self_method_call(c) and T.restores(_self_method_call(c)) for st in s.finalbody
                             for c in _calls(st))
                walk(s.body, prot or handler_ok or fin_ok, func, depth)
                walk(s.orelse, prot, func, depth)
                walk(s.finalbody, prot, func, depth)
                continue
            if isinstance(s, ast.With):
                proto = _undo_stack_protocol(T, s) if func == "ModelingUpdate.__init__" else None
                if proto is not None:
                    undo_state["stack"], undo_state["undo"], probs = proto
                    undo_state["with"] = s
                    for node_, where_, text_ in probs:
                        res.findings.append(Finding(
                            "R-TXN", f"{where_} :: undo stack :: {text_[:60]}", f"{where_}: {text_}", rel,
                            getattr(node_, "lineno", s.lineno), where_, {"clauses": ["sim", "recompute", "val"]}))
                    res.instances += 1
                    walk(s.body, prot or not probs, func, depth)
                else:
                    walk(s.body, prot, func, depth)
                continue
            if isinstance(s, ast.If):
                for c in _calls(s.test):
                    visit_call(c, prot, func, depth)
                walk(s.body, prot, func, depth)
                walk(s.orelse, prot, func, depth)
                continue
            if isinstance(s, (ast.For, ast.While)):
                for _ in range(2):     # a replacement in iteration 1 precedes a raise in iteration 2
                    walk(s.body, prot, func, depth)
                continue
            if isinstance(s, ast.Raise):
                events.append(("raise", func, s.lineno, state["mut"], prot))
                res.instances += 1
                if state["mut"] and not prot:
                    report(s, "raise " + norm(s)[:60], func)
                continue
            for c in _calls(s):
                visit_call(c, prot, func, depth)
            # property reads on self that mutate/raise (new_sourcevalues etc. are pure)

    def visit_call(c, prot, func, depth):
        m = _self_method_call(c)
        name = c.func.attr if isinstance(c.func, ast.Attribute) else (c.func.id if isinstance(c.func, ast.Name) else "")
        if m and m in T.methods:
            if T.is_mut(m) or T.may_raise(m):
                walk(T.methods[m].body, prot, f"ModelingUpdate.{m}", depth + 1)
            return
        if name in RAISE_PRIMS:
            res.instances += 1
            events.append((name, func, c.lineno, state["mut"], prot))
            if state["mut"] and not prot:
                report(c, name, func)
        if name in MUT_PRIMS:
            state["mut"] = True

    walk(init.body, False, "ModelingUpdate.__init__")
    seen = set()
    for node, what, func in findings:
        key = f"{func} :: {what} after a replacement, unprotected"
        if key in seen:
            continue
        seen.add(key)
        cl = clause_of(what)
        msg = {
            "val": "the allowed-values check runs after the new value has been installed and nothing puts the old one "
                   "back: a refused assignment leaves the refused value in the model",
            "recompute": "an update rule raising in the middle of the recomputation loop leaves the values already "
                         "replaced (and the edited input) in place; their replaced predecessors stay referenced as "
                         "ancestors by values not yet recomputed, so the next edit crashes on a detached ancestor",
            "date": "a date rejection after values were replaced leaves the model modified",
            "sim": "a simulation that raises here never reaches reset_values: the baseline keeps simulated values",
        }
        res.findings.append(Finding(
            "R-TXN", key, f"{func}: {what} can raise after model values were replaced and no enclosing try restores "
            f"them — " + "; ".join(msg[c] for c in cl if c in msg), rel, node.lineno, func, {"clauses": cl}))
    # a simulation's normal exit resets
    res.instances += 1
    tail = init.body[-1]
    last_mut = max([s.lineno for s in init.body for c in _calls(s) if _self_method_call(c) and T.is_mut(_self_method_call(c))
                    and _self_method_call(c) != "reset_values"] or [0])
    ok_tail = any(isinstance(st, ast.If) and "simulation_date" in norm(st.test) and st.lineno > last_mut and any(
        _self_method_call(c) == "reset_values" for c in _calls(st)) for st in init.body) and not any(
        isinstance(n, ast.Return) and not _return_only_without_simulation(n, init) for n in ast.walk(init))
    if not ok_tail:
        res.findings.append(Finding(
            "R-TXN", "ModelingUpdate.__init__ :: no final reset_values for simulations",
            "ModelingUpdate.__init__ does not end with `if simulation_date is not None: self.reset_values()`: a "
            "successful simulation would leave its values installed in the baseline", rel, tail.lineno,
            "ModelingUpdate.__init__", {"clauses": ["sim"]}))
    # the restoring method covers every replacement segment and sees partial progress
    restorers = [m for m in T.methods if T.restores(m) and m not in ("reset_values", "set_updated_values",
                                                                     "apply_changes",
                                                                     "replace_ancestors_not_in_computation_chain_by_copies",
                                                                     "filter_hourly_quantities_to_filter")]
    handler_used = None
    for n in ast.walk(init):
        if isinstance(n, ast.Try):
            for h in n.handlers:
                for c in _calls(h):
                    if _self_method_call(c) in restorers:
                        handler_used = _self_method_call(c)
    via_stack = handler_used is None and undo_state["undo"] is not None
    if via_stack:
        handler_used = undo_state["undo"]
    if handler_used:
        fn = T.methods[handler_used]
        mentioned = {n.attr for n in ast.walk(fn) if isinstance(n, ast.Attribute) and isinstance(n.value, ast.Name)
                     and n.value.id == "self"}
        # … or in a method / property of the object that the restore reads (the pairs built by a helper)
        # (a method that the restore *calls*; a property that derives a filtered view of a list does not count as
        # looking at the list)
        for c in _calls(fn):
            nm = _self_method_call(c)
            h = T.methods.get(nm) if nm else None
            if h is not None and nm not in ("rollback", "__init__") and not is_property(h):
                mentioned |= {n.attr for n in ast.walk(h) if isinstance(n, ast.Attribute)
                              and isinstance(n.value, ast.Name) and n.value.id == "self"}
        # … or through an attribute that holds the lists themselves: `self.stages = ((self.A, self.B), …)` bound once in the
        # constructor — reading it is reading the lists it holds (R-ALIASREBIND checks that they stay the same objects)
        composites = _composite_attributes(T.methods.get("__init__"))
        for _ in range(2):
            for a_ in sorted(mentioned & set(composites)):
                mentioned |= composites[a_]
        need = ["changes_list", "hourly_quantities_to_filter", "filtered_hourly_quantities",
                "ancestors_to_replace_by_copies", "replaced_ancestors_copies", "values_to_recompute",
                "recomputed_values"]
        for nm in need:
            res.instances += 1
            if via_stack:
                continue       # every replacement pushes its own undo (checked pair by pair above)
            if nm not in mentioned:
                res.findings.append(Finding(
                    "R-TXN", f"ModelingUpdate.{handler_used} :: does not restore {nm}",
                    f"ModelingUpdate.{handler_used} (the exception handler's restore) never looks at self.{nm}: values "
                    f"replaced through that list stay in the model after a failed update", rel, fn.lineno,
                    f"ModelingUpdate.{handler_used}", {"clauses": ["sim", "recompute", "val"]}))
        # the restore undoes only the replacements that happened: a pair is put back when its new value is attached
        # *and* its previous value is detached. Testing the new value alone also "restores" a pair that was never applied
        # because the new value was refused for being attached to another object — through that object's attribute
        res.instances += 1
        from ..astutil import path_conditions as _pc, fully_expanded as _fxp
        rep = next((c for c in _calls(fn) if isinstance(c.func, ast.Attribute)
                    and c.func.attr == "replace_in_mod_obj_container_without_recomputation"), None)
        if rep is not None and rep.args:
            new_v, prev_v = norm(rep.func.value), norm(rep.args[0])
            stmt = rep
            while stmt is not None and not isinstance(stmt, ast.stmt):
                stmt = getattr(stmt, "_parent", None)
            conds = " and ".join(norm(_fxp(t, fn)) for t, pol in _pc(stmt, fn)) if stmt is not None else ""
            if f"{prev_v}.modeling_obj_container" not in conds:
                res.findings.append(Finding(
                    "R-TXN", f"ModelingUpdate.{handler_used} :: restores pairs that were never applied",
                    f"ModelingUpdate.{handler_used} puts `{prev_v}` back wherever `{new_v}` is attached"
                    f"{' (`' + conds[:60] + '`)' if conds else ''}, without checking that `{prev_v}` was detached: when the "
                    f"update failed because the new value belongs to another object, that object's attribute receives the "
                    f"previous value of the edited one (`b.x = a.x` refused, and afterwards a.x holds b's old value)", rel,
                    rep.lineno, f"ModelingUpdate.{handler_used}", {"clauses": ["val", "recompute", "sim"]}))
        # partial progress of the raising loop must be visible: recompute_attributes publishes its list before the loop
        rec = T.methods.get("recompute_attributes") if not via_stack else None
        res.instances += 1
        if rec is not None:
            published = None
            loop = next((s for s in rec.body if isinstance(s, ast.For)), None)
            for s in rec.body:
                if loop is not None and s.lineno >= loop.lineno:
                    break
                if isinstance(s, ast.Assign):
                    for t in s.targets:
                        if isinstance(t, ast.Attribute) and isinstance(t.value, ast.Name) and t.value.id == "self" \
                                and t.attr == "recomputed_values":
                            published = s
            if published is None and loop is not None:
                # the attribute's own list kept and emptied in place: `xs = self.recomputed_values; xs.clear()` — what the
                # loop appends to xs is in the attribute at once
                for s in rec.body:
                    if s.lineno >= loop.lineno:
                        break
                    if isinstance(s, ast.Assign) and len(s.targets) == 1 and isinstance(s.targets[0], ast.Name) \
                            and norm(s.value) == "self.recomputed_values":
                        published = s
            appended_in_loop = False
            if loop is not None and published is not None:
                aliases = {t.id for t in published.targets if isinstance(t, ast.Name)} | {"self.recomputed_values"}
                for c in _calls(loop):
                    if isinstance(c.func, ast.Attribute) and c.func.attr == "append" and norm(c.func.value) in aliases:
                        appended_in_loop = True
            if loop is None:
                # no explicit loop: the published list (bound to the attribute *before* anything is recomputed) is filled by
                # `extend(map(f, …))` / `extend(<generator>)`, which appends one result at a time as they are produced — not
                # by `= list(map(…))`, which binds the name only once everything went through
                for st in rec.body:
                    if isinstance(st, ast.Assign) and published is None and any(
                            isinstance(t, ast.Attribute) and norm(t) == "self.recomputed_values" for t in st.targets) \
                            and isinstance(st.value, (ast.List, ast.Name)) or (
                                isinstance(st, ast.Assign) and published is None and any(
                                    isinstance(t, ast.Attribute) and norm(t) == "self.recomputed_values" for t in st.targets)
                                and isinstance(st.value, ast.Call) and norm(st.value.func) == "list" and not st.value.args):
                        published = st
                    if published is not None and isinstance(st, ast.Expr) and isinstance(st.value, ast.Call) \
                            and isinstance(st.value.func, ast.Attribute) and st.value.func.attr == "extend" and st.value.args \
                            and (isinstance(st.value.args[0], ast.GeneratorExp) or (
                                isinstance(st.value.args[0], ast.Call) and norm(st.value.args[0].func) == "map")):
                        al_ = {t.id for t in published.targets if isinstance(t, ast.Name)} | {"self.recomputed_values"}
                        if norm(st.value.func.value) in al_ and st.lineno > published.lineno:
                            appended_in_loop = True
            if not (published is not None and appended_in_loop):
                res.findings.append(Finding(
                    "R-TXN", "ModelingUpdate.recompute_attributes :: partial progress not visible to the restore",
                    "recompute_attributes only hands its list of recomputed values back when the loop completes: when "
                    "a rule raises midway, the handler cannot know which values were already replaced and leaves them "
                    "in the model", rel, rec.lineno, "ModelingUpdate.recompute_attributes",
                    {"clauses": ["recompute", "sim"]}))
    res.samples = [{"event": e[0], "in": e[1], "line": e[2], "after_a_replacement": e[3], "inside_restoring_try": e[4]}
                   for e in events[:8]]
    res.breakdown = {"mutating_methods": sorted(m for m in T.methods if T.is_mut(m)),
                     "raising_methods": sorted(m for m in T.methods if T.may_raise(m)),
                     "restore_method": handler_used}
    res.floor = 9
    return res


def _pair_segments(T):
    """The pairing of replaced and replacing values that set / reset walk, as a list of segments
    [(previous-side expr, new-side expr)] plus how the walk names the two sides — from either representation:
      * two parallel attributes  self.P = A0 + A1 + …;  self.N = B0 + B1 + …           (roles: the attribute names)
      * one attribute of records self.X = [Rec(p, n) for p, n in zip(A0 + A1 + …, B0 + B1 + …)]
                                 self.X = [Rec(p, n) for p, n in chain(<(c[0], c[1]) for c in L>, zip(A1, B1), …)]
        (also through a method that returns that list)                                  (roles: the record's fields)
    None when neither is found."""
    init = T.methods["__init__"]

    def segs(e):
        if isinstance(e, ast.BinOp) and isinstance(e.op, ast.Add):
            return segs(e.left) + segs(e.right)
        return [e]
    prev = new = None
    for n in ast.walk(init):
        if isinstance(n, ast.Assign) and len(n.targets) == 1 and isinstance(n.targets[0], ast.Attribute):
            if n.targets[0].attr == "all_previous_obj_linked_to_mod_obj":
                prev = n
            if n.targets[0].attr == "all_new_obj_linked_to_mod_obj":
                new = n
    if prev is None and new is None:
        # both lists out of one helper: `self.P, self.N = self.concatenate([(A0, B0), (A1, B1), …])`, the helper extending
        # one list with the first component and another with the second, row after row, and returning them in that order
        for n in ast.walk(init):
            if not (isinstance(n, ast.Assign) and len(n.targets) == 1 and isinstance(n.targets[0], ast.Tuple)
                    and [getattr(t, "attr", None) for t in n.targets[0].elts] ==
                    ["all_previous_obj_linked_to_mod_obj", "all_new_obj_linked_to_mod_obj"]):
                continue
            m = _self_method_call(n.value) if isinstance(n.value, ast.Call) else None
            h = T.methods.get(m) if m else None
            rows = n.value.args[0] if h is not None and len(n.value.args) == 1 else None
            if not (isinstance(rows, (ast.List, ast.Tuple)) and rows.elts and all(
                    isinstance(r, ast.Tuple) and len(r.elts) == 2 for r in rows.elts)):
                continue
            hp = [a.arg for a in h.args.args if a.arg not in ("self", "cls")]
            loop = next((x for x in h.body if isinstance(x, ast.For)), None)
            ret = next((x for x in h.body if isinstance(x, ast.Return)), None)
            ok = len(hp) == 1 and loop is not None and norm(loop.iter) == hp[0] and isinstance(loop.target, ast.Tuple) \
                and len(loop.target.elts) == 2 and ret is not None and isinstance(ret.value, ast.Tuple) and len(ret.value.elts) == 2
            if ok:
                a_, b_ = [norm(x) for x in loop.target.elts]
                ext = {}
                for st in loop.body:
                    if isinstance(st, ast.Expr) and isinstance(st.value, ast.Call) and isinstance(st.value.func, ast.Attribute) \
                            and st.value.func.attr == "extend" and len(st.value.args) == 1:
                        ext[norm(st.value.args[0])] = norm(st.value.func.value)
                    else:
                        ok = False
                ok = ok and ext.get(a_) == norm(ret.value.elts[0]) and ext.get(b_) == norm(ret.value.elts[1]) and len(ext) == 2
            if ok:
                return dict(kind="lists", segments=[(r.elts[0], r.elts[1]) for r in rows.elts],
                            n_prev=len(rows.elts), n_new=len(rows.elts), node=n,
                            prev_role="self.all_previous_obj_linked_to_mod_obj", new_role="self.all_new_obj_linked_to_mod_obj")
    if prev is not None and new is not None:
        return dict(kind="lists", segments=list(zip(segs(prev.value), segs(new.value))),
                    n_prev=len(segs(prev.value)), n_new=len(segs(new.value)), node=prev,
                    prev_role="self.all_previous_obj_linked_to_mod_obj", new_role="self.all_new_obj_linked_to_mod_obj")
    # plain (previous, new) pairs: self.X = list(self.<method>()) / list(chain(…)) with the method returning
    # chain(<(c[0], c[1]) for c in L> | <(o, n) for o, n in L>, zip(A1, B1), …)
    for n in ast.walk(init):
        if not (isinstance(n, ast.Assign) and len(n.targets) == 1 and isinstance(n.targets[0], ast.Attribute)
                and norm(n.targets[0].value) == "self" and isinstance(n.value, ast.Call) and norm(n.value.func) in ("list", "tuple")
                and len(n.value.args) == 1):
            continue
        src = n.value.args[0]
        m = _self_method_call(src) if isinstance(src, ast.Call) else None
        if m and m in T.methods:
            rets = [r.value for r in ast.walk(T.methods[m]) if isinstance(r, ast.Return) and r.value is not None]
            src = rets[0] if len(rets) == 1 else src
        if not (isinstance(src, ast.Call) and norm(src.func) in ("chain", "itertools.chain") and src.args):
            continue
        segments = []
        for part in src.args:
            if isinstance(part, ast.Call) and norm(part.func) == "zip" and len(part.args) == 2:
                segments.append((part.args[0], part.args[1]))
            elif isinstance(part, (ast.GeneratorExp, ast.ListComp)) and isinstance(part.elt, ast.Tuple) \
                    and len(part.elt.elts) == 2 and len(part.generators) == 1 and not part.generators[0].ifs:
                g = part.generators[0]
                e0, e1 = part.elt.elts
                if isinstance(g.target, ast.Tuple) and len(g.target.elts) == 2 and [norm(x) for x in g.target.elts] == [norm(e0), norm(e1)]:
                    # (o, n) for o, n in L  ==  (c[0], c[1]) for c in L
                    c_ = ast.Name(id="change", ctx=ast.Load())
                    g = ast.comprehension(target=ast.Name(id="change", ctx=ast.Store()), iter=g.iter, ifs=[], is_async=0)
                    e0 = ast.Subscript(value=c_, slice=ast.Constant(value=0), ctx=ast.Load())
                    e1 = ast.Subscript(value=c_, slice=ast.Constant(value=1), ctx=ast.Load())
                segments.append((ast.ListComp(elt=e0, generators=[g]), ast.ListComp(elt=e1, generators=[g])))
            else:
                segments = None
                break
        if segments:
            return dict(kind="pairs", segments=segments, n_prev=len(segments), n_new=len(segments), node=n,
                        attr=n.targets[0].attr, prev_role="pair[0]", new_role="pair[1]")
    # records
    for n in ast.walk(init):
        if not (isinstance(n, ast.Assign) and len(n.targets) == 1 and isinstance(n.targets[0], ast.Attribute)
                and norm(n.targets[0].value) == "self"):
            continue
        v = n.value
        m = _self_method_call(v) if isinstance(v, ast.Call) else None
        if m and m in T.methods:
            rets = [r.value for r in ast.walk(T.methods[m]) if isinstance(r, ast.Return) and r.value is not None]
            v = rets[0] if len(rets) == 1 else v
        if not (isinstance(v, ast.ListComp) and len(v.generators) == 1 and not v.generators[0].ifs
                and isinstance(v.elt, ast.Call) and isinstance(v.elt.func, ast.Name) and len(v.elt.args) == 2
                and isinstance(v.generators[0].target, ast.Tuple) and len(v.generators[0].target.elts) == 2):
            continue
        a, b = [norm(x) for x in v.generators[0].target.elts]
        if [norm(x) for x in v.elt.args] != [a, b]:
            continue
        # field names of the record, in constructor order
        fields = None
        for mod, (r_, tree, _s) in T.pm.modules.items():
            for st in tree.body:
                if isinstance(st, ast.ClassDef) and st.name == v.elt.func.id:
                    fields = [x.target.id for x in st.body if isinstance(x, ast.AnnAssign) and isinstance(x.target, ast.Name)]
                if isinstance(st, ast.Assign) and isinstance(st.targets[0], ast.Name) and st.targets[0].id == v.elt.func.id \
                        and isinstance(st.value, ast.Call) and "namedtuple" in norm(st.value.func) and len(st.value.args) >= 2:
                    spec = st.value.args[1]
                    fields = [x.value for x in spec.elts] if isinstance(spec, (ast.List, ast.Tuple)) else \
                        str(getattr(spec, "value", "")).replace(",", " ").split()
        if not fields or len(fields) != 2:
            continue
        it = v.generators[0].iter
        segments = None
        if isinstance(it, ast.Call) and norm(it.func) == "zip" and len(it.args) == 2:
            ps, ns = segs(it.args[0]), segs(it.args[1])
            segments, n_prev, n_new = list(zip(ps, ns)), len(ps), len(ns)
        elif isinstance(it, ast.Call) and norm(it.func) in ("chain", "itertools.chain"):
            segments = []
            for part in it.args:
                if isinstance(part, ast.Call) and norm(part.func) == "zip" and len(part.args) == 2:
                    segments.append((part.args[0], part.args[1]))
                elif isinstance(part, (ast.GeneratorExp, ast.ListComp)) and isinstance(part.elt, ast.Tuple) \
                        and len(part.elt.elts) == 2 and len(part.generators) == 1:
                    g = part.generators[0]
                    segments.append((ast.ListComp(elt=part.elt.elts[0], generators=[g]),
                                     ast.ListComp(elt=part.elt.elts[1], generators=[g])))
                else:
                    segments = None
                    break
            n_prev = n_new = len(segments) if segments else 0
        if segments:
            return dict(kind="records", segments=segments, n_prev=n_prev, n_new=n_new, node=n, attr=n.targets[0].attr,
                        prev_role=fields[0], new_role=fields[1])
    return None


def _enum_member(e):
    """`Name.MEMBER` with an upper-case member name: a constant of an enumeration"""
    return isinstance(e, ast.Attribute) and isinstance(e.value, ast.Name) and e.attr.isupper() and e.value.id[:1].isupper()


def _direction_view(fn, find_method):
    """set / reset written as one helper that takes the direction: the helper spliced in with the constant the caller
    passes, comparisons between two enumeration constants decided, and the branches they select kept"""
    from ..astutil import inline_helpers, clone
    v = inline_helpers(fn, find_method, max_body=30)

    def decide(t):
        if isinstance(t, ast.Compare) and len(t.ops) == 1 and _enum_member(t.left) and _enum_member(t.comparators[0]) \
                and norm(t.left.value) == norm(t.comparators[0].value):
            same = t.left.attr == t.comparators[0].attr
            if isinstance(t.ops[0], (ast.Is, ast.Eq)):
                return same
            if isinstance(t.ops[0], (ast.IsNot, ast.NotEq)):
                return not same
        if isinstance(t, ast.UnaryOp) and isinstance(t.op, ast.Not):
            d = decide(t.operand)
            return None if d is None else not d
        if isinstance(t, ast.Constant) and isinstance(t.value, bool):
            return t.value          # a direction passed as a boolean constant
        return None

    class _Arms(ast.NodeTransformer):
        """`a if <decided> else b` reads as the arm taken"""
        def visit_IfExp(self, node):
            self.generic_visit(node)
            d = decide(node.test)
            if d is None:
                return node
            return node.body if d else node.orelse

    def unpack_aliases(stmts):
        """`a, b = x, y` with plain names on both sides: the rest of the block reads x, y (the two roles of a swap written
        as `in_model, to_put = (new, previous)`)"""
        from ..astutil import substitute_stmt as _sub_s
        out = []
        for i, st in enumerate(stmts):
            if isinstance(st, ast.Assign) and len(st.targets) == 1 and isinstance(st.targets[0], ast.Tuple) \
                    and isinstance(st.value, ast.Tuple) and len(st.value.elts) == len(st.targets[0].elts) \
                    and all(isinstance(x, ast.Name) for x in st.targets[0].elts + st.value.elts):
                m = {t.id: v for t, v in zip(st.targets[0].elts, st.value.elts)}
                rest = stmts[i + 1:]
                rebinds = any(isinstance(x, ast.Name) and isinstance(x.ctx, ast.Store) and (x.id in m or x.id in {v.id for v in m.values()})
                              for r in rest for x in ast.walk(r))
                if not rebinds:
                    return out + unpack_aliases([_sub_s(r, m) for r in rest])
            out.append(st)
        return out

    def prune(stmts):
        out = []
        stmts = unpack_aliases([_Arms().visit(st) for st in stmts])
        for st in stmts:
            for field in ("body", "orelse", "finalbody"):
                sub = getattr(st, field, None)
                if isinstance(sub, list) and sub and isinstance(sub[0], ast.stmt):
                    setattr(st, field, prune(sub))
            if isinstance(st, ast.If):
                d = decide(st.test)
                if d is not None:
                    out += st.body if d else st.orelse
                    continue
            out.append(st)
        return out
    v.body = prune(v.body) or [ast.Pass()]
    for n in ast.walk(v):
        for ch in ast.iter_child_nodes(n):
            ch._parent = n
    return v


def _zip_loop(fn, pairing=None):
    """set/reset methods: the zip loop that swaps the values, the conditions it runs under (as a formula over the path
    conditions: `if g: loop` and `if not g: return; loop` read the same) and the flag assignment under the same
    conditions"""
    from ..astutil import path_conditions, expanded
    from ..paths import path_formula, implies
    loop = next((n for n in ast.walk(fn) if isinstance(n, ast.For) and isinstance(n.iter, ast.Call)
                 and isinstance(n.iter.func, ast.Name) and n.iter.func.id == "zip"), None)
    rec_loop = pair_loop = None
    if loop is None and pairing is not None and pairing["kind"] == "records":
        rec_loop = next((n for n in ast.walk(fn) if isinstance(n, ast.For) and isinstance(n.target, ast.Name)
                         and norm(n.iter) == f"self.{pairing['attr']}"), None)
        loop = rec_loop
    if loop is None and pairing is not None and pairing["kind"] == "pairs":
        # for previous, new in self.<pairs>: the two sides are the positions in the pair
        pair_loop = next((n for n in ast.walk(fn) if isinstance(n, ast.For) and isinstance(n.target, ast.Tuple)
                          and len(n.target.elts) == 2 and all(isinstance(x, ast.Name) for x in n.target.elts)
                          and norm(n.iter) == f"self.{pairing['attr']}"), None)
        loop = pair_loop
    if loop is None:
        return None
    flags = [n for n in ast.walk(fn) if isinstance(n, ast.Assign) and isinstance(n.targets[0], ast.Attribute)
             and ((isinstance(n.value, ast.Constant) and isinstance(n.value.value, bool)) or _enum_member(n.value))]
    if len(flags) != 1:
        return None
    flag = flags[0]
    g_loop, g_flag = path_formula(path_conditions(loop, fn), fn), path_formula(path_conditions(flag, fn), fn)
    if not (implies(g_loop, g_flag) and implies(g_flag, g_loop)):
        return None
    call = next((c for c in _calls(loop) if isinstance(c.func, ast.Attribute)
                 and c.func.attr == "replace_in_mod_obj_container_without_recomputation"), None)
    if pair_loop is not None:
        if call is None or not call.args:
            return None
        names_ = [x.id for x in loop.target.elts]
        recv, arg = norm(call.func.value), norm(call.args[0])
        if recv not in names_ or arg not in names_:
            return None
        roles = [pairing["prev_role"], pairing["new_role"]]
        return dict(guard=g_loop, recv_list=roles[names_.index(recv)], arg_list=roles[names_.index(arg)], flag=norm(flag),
                    flag_attr=norm(flag.targets[0]), zargs=sorted(roles))
    if rec_loop is not None:
        # for r in self.X: r.<f1>.replace(r.<f2>): the two sides are the record's fields
        v = loop.target.id
        if call is None or not call.args:
            return None
        recv, arg = call.func.value, call.args[0]
        if not (isinstance(recv, ast.Attribute) and norm(recv.value) == v and isinstance(arg, ast.Attribute)
                and norm(arg.value) == v):
            return None
        roles = [pairing["prev_role"], pairing["new_role"]]
        if recv.attr not in roles or arg.attr not in roles:
            return None
        return dict(guard=g_loop, recv_list=recv.attr, arg_list=arg.attr, flag=norm(flag), flag_attr=norm(flag.targets[0]),
                    zargs=sorted(roles))
    vars_ = [e.id for e in loop.target.elts] if isinstance(loop.target, ast.Tuple) else None
    zargs = [norm(expanded(a, fn)) for a in loop.iter.args]
    if call is None or vars_ is None:
        return None
    recv = call.func.value.id if isinstance(call.func.value, ast.Name) else None
    arg = call.args[0].id if call.args and isinstance(call.args[0], ast.Name) else None
    if recv not in vars_ or arg not in vars_:
        return None
    return dict(guard=g_loop, recv_list=zargs[vars_.index(recv)], arg_list=zargs[vars_.index(arg)],
                flag=norm(flag), flag_attr=norm(flag.targets[0]), zargs=zargs)


@rule("R-MIRROR")
def r_mirror(E):
    pm = E.pm
    res = RuleResult("R-MIRROR", "set_updated_values and reset_values are mirror images: same zipped lists, receiver and "
                                 "argument exchanged, opposite guards, opposite flag")
    rel, a = pm.find_function(MU, "ModelingUpdate.set_updated_values")
    rel, b = pm.find_function(MU, "ModelingUpdate.reset_values")
    pairing = _pair_segments(TxnAnalysis(pm))
    # (read with a direction-taking helper spliced in and the comparisons between enumeration constants decided: for
    # the plain two-method form this view is the method itself)
    _fm = lambda name, _T=TxnAnalysis(pm): _T.methods.get(name) if name not in ("set_updated_values", "reset_values") else None
    a2, b2 = _direction_view(a, _fm), _direction_view(b, _fm)
    sa, sb = _zip_loop(a2, pairing), _zip_loop(b2, pairing)
    if sa is not None and sb is not None:
        a, b = a2, b2
    else:
        sa, sb = _zip_loop(a, pairing), _zip_loop(b, pairing)
    res.instances = 1
    # the on/off state that guards the two loops has two values: a state that *counts* (set increments, reset decrements and
    # only swaps at zero) makes `set, set, reset` leave the simulated values in the model
    from ..astutil import path_conditions as _pcs
    T0 = TxnAnalysis(pm)
    counted = []
    for fn_ in (a, b):
        loop_ = next((n for n in ast.walk(fn_) if isinstance(n, ast.For) and any(
            isinstance(c, ast.Call) and isinstance(c.func, ast.Attribute)
            and c.func.attr == "replace_in_mod_obj_container_without_recomputation" for c in ast.walk(n))), None)
        if loop_ is None:
            continue
        state = set()
        for t, _pol in _pcs(loop_, fn_):
            for x in ast.walk(t):
                if isinstance(x, ast.Attribute) and isinstance(x.value, ast.Name) and x.value.id == "self":
                    state.add(x.attr)
                    pr = T0.methods.get(x.attr)
                    if pr is not None and is_property(pr):
                        state |= {y.attr for y in ast.walk(pr) if isinstance(y, ast.Attribute)
                                  and isinstance(y.value, ast.Name) and y.value.id == "self"}
        for n in ast.walk(fn_):
            if isinstance(n, ast.AugAssign) and isinstance(n.target, ast.Attribute) and norm(n.target.value) == "self" \
                    and n.target.attr in state:
                counted.append((fn_, n))
    for fn_, n in counted:
        res.findings.append(Finding(
            "R-MIRROR", f"set/reset :: the on/off state {norm(n.target)} is counted",
            f"ModelingUpdate.{fn_.name} does `{norm(n)}` on the state that guards the swap: the state counts requests instead "
            f"of being on or off, so after set_updated_values() twice one reset_values() leaves the simulated values in "
            f"the model (toggling is no longer idempotent)", rel, n.lineno, f"ModelingUpdate.{fn_.name}"))
    if counted:
        return res
    if sa is None or sb is None:
        res.undecided.append("set_updated_values / reset_values no longer have the guarded zip-loop shape")
        return res
    probs = []
    if set(sa["zargs"]) != set(sb["zargs"]) or len(sa["zargs"]) != 2:
        probs.append(f"different lists are zipped ({sa['zargs']} vs {sb['zargs']})")
    if not (sa["recv_list"] == sb["arg_list"] and sa["arg_list"] == sb["recv_list"]):
        probs.append(f"set replaces {sa['recv_list']} by {sa['arg_list']} but reset replaces {sb['recv_list']} by "
                     f"{sb['arg_list']}")
    rel0, init = TxnAnalysis(pm).rel, TxnAnalysis(pm).methods["__init__"]
    prev_list = None
    if pairing is not None and pairing["kind"] in ("records", "pairs"):
        first = pairing["segments"][0][0]
        if isinstance(first, ast.ListComp) and norm(first.elt).endswith("[0]"):
            prev_list = pairing["prev_role"]
    for n in ast.walk(init):
        if isinstance(n, ast.Assign) and isinstance(n.targets[0], ast.Attribute) and norm(n.targets[0]) in sa["zargs"]:
            first = n.value
            while isinstance(first, ast.BinOp):
                first = first.left
            if isinstance(first, ast.ListComp) and norm(first.elt).endswith("[0]"):
                prev_list = norm(n.targets[0])
    if prev_list is None and pairing is not None and pairing["kind"] == "lists" and pairing["segments"]:
        first = pairing["segments"][0][0]
        if isinstance(first, ast.ListComp) and norm(first.elt).endswith("[0]"):
            prev_list = pairing["prev_role"]
    if prev_list is None:
        res.undecided.append("cannot tell which zipped list holds the previous values")
    elif sa["recv_list"] != prev_list or sb["arg_list"] != prev_list:
        probs.append("set must replace the previous values by the new ones and reset the new ones by the previous")
    from ..paths import implies, parse
    equiv = lambda f, g: implies(f, g) and implies(g, f)
    va, vb = sa["flag"].split("= ", 1)[-1], sb["flag"].split("= ", 1)[-1]
    boolean = {va, vb} <= {"True", "False"}
    if boolean and not (va == "True" and vb == "False" and sa["flag_attr"] == sb["flag_attr"]):
        probs.append(f"flag updates are not opposite ({sa['flag']} / {sb['flag']})")
    elif boolean:
        fl = parse(sa["flag_attr"])
        if not equiv(sa["guard"], ("not", sb["guard"])):
            probs.append("guards are not opposite")
        if not equiv(sa["guard"], ("not", fl)):
            probs.append(f"set_updated_values must be guarded by `not {sa['flag_attr']}`")
    else:
        # a state with two named values (an enumeration): each toggle runs exactly when the state is not already the one
        # it establishes, the two toggles establish different states, and nothing else is ever stored in the state
        attr = sa["flag_attr"]
        if va == vb or attr != sb["flag_attr"]:
            probs.append(f"flag updates are not opposite ({sa['flag']} / {sb['flag']})")
        else:
            def is_state(v):
                return [parse(f"{attr} is {v}"), parse(f"{attr} == {v}")]
            for who, g, v in (("set_updated_values", sa["guard"], va), ("reset_values", sb["guard"], vb)):
                if not any(equiv(g, ("not", f_)) for f_ in is_state(v)):
                    probs.append(f"{who} must run exactly when `{attr}` is not already `{v}`")
            _, cls_ = pm.find_function(MU, "ModelingUpdate")
            other = sorted({norm(n.value) for n in ast.walk(cls_) if isinstance(n, ast.Assign)
                            and any(norm(t) == attr for t in n.targets)} - {va, vb})
            direct = [o for o in other if not any(isinstance(x, ast.Name) and x.id not in ("self",) and not x.id[:1].isupper()
                                                   for x in ast.walk(ast.parse(o, mode="eval")))]
            if direct:
                probs.append(f"the on/off state also receives {direct}")
    for p in probs:
        res.findings.append(Finding("R-MIRROR", f"set/reset :: {p[:100]}", f"set_updated_values / reset_values: {p}: "
                                    f"toggling a simulation on and off does not return to the same baseline objects",
                                    rel, b.lineno, "ModelingUpdate.reset_values"))
    res.samples = [{"set_updated_values": {k: v for k, v in sa.items() if k != "guard"},
                    "reset_values": {k: v for k, v in sb.items() if k != "guard"}}]
    res.floor = 1
    return res


def _lockstep_pairs(T):
    """(iterated self list, list that receives exactly one append per iteration) for the producer methods"""
    pairs = {}
    notes = []
    for name, fn in T.methods.items():
        for loop in [s for s in fn.body if isinstance(s, ast.For)]:
            it = norm(loop.iter)
            if not it.startswith("self."):
                continue
            appends = []
            irregular = False
            for s in loop.body:
                # top level of the loop body only: an append under an `if`, or a continue/break/return, breaks lockstep
                if isinstance(s, ast.Expr) and isinstance(s.value, ast.Call) and isinstance(s.value.func, ast.Attribute) \
                        and s.value.func.attr == "append":
                    appends.append(norm(s.value.func.value))
            for n in ast.walk(loop):
                if isinstance(n, (ast.Continue, ast.Break, ast.Return)):
                    irregular = True
                if isinstance(n, ast.Call) and isinstance(n.func, ast.Attribute) and n.func.attr == "append" \
                        and norm(n.func.value) not in appends:
                    irregular = True   # conditional append
            for tgt in set(appends):
                if appends.count(tgt) == 1 and not irregular:
                    pairs[(it[5:], tgt)] = name
                else:
                    notes.append(f"{name}: loop over {it} appends to {tgt} irregularly")
        # the same one-for-one production without an explicit loop: `X.extend(map(f, self.L))`, `X.extend(f(v) for v in
        # self.L)`, `X[:] = [f(v) for v in self.L]`
        for st in ast.walk(fn):
            src, tgt = None, None
            if isinstance(st, ast.Expr) and isinstance(st.value, ast.Call) and isinstance(st.value.func, ast.Attribute) \
                    and st.value.func.attr == "extend" and len(st.value.args) == 1:
                src, tgt = st.value.args[0], norm(st.value.func.value)
            elif isinstance(st, ast.Assign) and len(st.targets) == 1 and isinstance(st.targets[0], ast.Subscript) \
                    and isinstance(st.targets[0].slice, ast.Slice) and st.targets[0].slice.lower is None \
                    and st.targets[0].slice.upper is None:
                src, tgt = st.value, norm(st.targets[0].value)
            if src is None:
                continue
            over = None
            if isinstance(src, ast.Call) and norm(src.func) == "map" and len(src.args) == 2:
                over = norm(src.args[1])
            elif isinstance(src, (ast.GeneratorExp, ast.ListComp)) and len(src.generators) == 1 and not src.generators[0].ifs:
                over = norm(src.generators[0].iter)
            if over and over.startswith("self."):
                pairs[(over[5:], tgt)] = name
    return pairs, notes


@rule("R-ZIP")
def r_zip(E):
    pm = E.pm
    res = RuleResult("R-ZIP", "the lists zipped to restore values and to pair twins are built in lockstep: same segments "
                              "in the same order, each produced with exactly one append per element of its partner")
    T = TxnAnalysis(pm)
    rel = T.rel
    init = T.methods["__init__"]
    pairing = _pair_segments(T)
    if pairing is None:
        raise AnalysisError("all_previous_obj_linked_to_mod_obj / all_new_obj_linked_to_mod_obj vanished")
    prev = new = pairing["node"]
    ps, ns = [a for a, _ in pairing["segments"]], [b for _, b in pairing["segments"]]
    if pairing["n_prev"] != pairing["n_new"]:
        ps, ns = ps + [None] * (pairing["n_prev"] - len(ps)), ns + [None] * (pairing["n_new"] - len(ns))
    pairs, notes = _lockstep_pairs(T)
    # a list returned by a producer and stored under another name in the caller
    alias = {}
    for fn in T.methods.values():
        for n in ast.walk(fn):
            if isinstance(n, ast.Assign) and len(n.targets) >= 1 and isinstance(n.value, ast.Call):
                m = _self_method_call(n.value)
                if m and m in T.methods:
                    rets = [r for r in ast.walk(T.methods[m]) if isinstance(r, ast.Return) and r.value is not None]
                    for t in n.targets:
                        if isinstance(t, ast.Attribute) and isinstance(t.value, ast.Name) and t.value.id == "self" \
                                and len(rets) == 1 and isinstance(rets[0].value, ast.Name):
                            alias[(m, rets[0].value.id)] = t.attr
                        # the producer returns `[f(v) for v in self.L]`: one element per element of L, stored by the caller
                        if isinstance(t, ast.Attribute) and isinstance(t.value, ast.Name) and t.value.id == "self" \
                                and len(rets) == 1 and isinstance(rets[0].value, (ast.ListComp,)) \
                                and len(rets[0].value.generators) == 1 and not rets[0].value.generators[0].ifs \
                                and norm(rets[0].value.generators[0].iter).startswith("self."):
                            pairs[(norm(rets[0].value.generators[0].iter)[5:], "self." + t.attr)] = m
    # an attribute assigned as alias of a local list before the loop (self.x = x = []), or a local that names the
    # attribute's list (x = self.x)
    for name, fn in T.methods.items():
        for n in ast.walk(fn):
            if isinstance(n, ast.Assign) and len(n.targets) == 2:
                a = [t for t in n.targets if isinstance(t, ast.Attribute)]
                l = [t for t in n.targets if isinstance(t, ast.Name)]
                if a and l:
                    alias[(name, l[0].id)] = a[0].attr
            if isinstance(n, ast.Assign) and len(n.targets) == 1 and isinstance(n.targets[0], ast.Name) \
                    and isinstance(n.value, ast.Attribute) and norm(n.value.value) == "self" \
                    and sum(1 for m_ in ast.walk(fn) if isinstance(m_, ast.Assign) and any(
                        isinstance(t, ast.Name) and t.id == n.targets[0].id for t in m_.targets)) == 1:
                alias[(name, n.targets[0].id)] = n.value.attr
    lock = set()
    for (it, tgt), m in pairs.items():
        t = tgt[5:] if tgt.startswith("self.") else alias.get((m, tgt), tgt)
        lock.add((it, t))
    res.breakdown = {"lockstep_pairs": sorted(f"{a} ~ {b}" for a, b in lock), "irregular": notes}
    if pairing["n_prev"] != pairing["n_new"]:
        res.findings.append(Finding("R-ZIP", "segment count", f"all_previous… has {pairing['n_prev']} segments, all_new… has "
                                    f"{pairing['n_new']}: restore pairs the wrong objects", rel, prev.lineno,
                                    "ModelingUpdate.__init__"))
    for i, (p, n) in enumerate(zip(ps, ns)):
        res.instances += 1
        key = f"segment {i}: {norm(p)[:50]} ~ {norm(n)[:50]}"
        if isinstance(p, ast.ListComp) and isinstance(n, ast.ListComp):
            ok = norm(p.generators[0].iter) == norm(n.generators[0].iter) and not p.generators[0].ifs \
                and not n.generators[0].ifs and norm(p.elt).endswith("[0]") and norm(n.elt).endswith("[1]")
            if not ok:
                res.findings.append(Finding("R-ZIP", key, f"segment {i}: the change pairs are not split as "
                                            f"[c[0] …] / [c[1] …] over the same list", rel, prev.lineno,
                                            "ModelingUpdate.__init__"))
            continue
        a, b = norm(p), norm(n)
        if not (a.startswith("self.") and b.startswith("self.")):
            res.findings.append(Finding("R-ZIP", key, f"segment {i} is not a pair of self lists", rel, prev.lineno,
                                        "ModelingUpdate.__init__"))
            continue
        if (a[5:], b[5:]) not in lock:
            res.findings.append(Finding(
                "R-ZIP", key, f"segment {i}: self.{b[5:]} is not built with exactly one append per element of "
                f"self.{a[5:]} (lockstep pairs found: {sorted(lock)}): reset_values / set_updated_values would put "
                f"values back in the wrong places", rel, new.lineno, "ModelingUpdate.__init__"))
        elif len(res.samples) < 4:
            res.samples.append({"segment": i, "previous": a, "new": b, "verdict": "one append per element"})
    # every list of values that an update replaces one for one is among the toggled segments: a pair of lists left out
    # (the copies made of the untouched ancestors for a simulation) stays in the model when the simulation is switched off —
    # the baseline then holds the copies, and its values list detached originals as ancestors
    toggled = {(norm(p)[5:], norm(n)[5:]) for p, n in zip(ps, ns) if p is not None and n is not None
               and norm(p).startswith("self.") and norm(n).startswith("self.")}
    if pairing["kind"] in ("records", "pairs"):
        toggled |= {(a_, b_) for a_, b_ in lock if any(a_ in norm(x) and b_ in norm(x) for seg in pairing["segments"] for x in seg
                                                        if x is not None)}
    # (lists kept on the update object: a local list filled in a loop — ids collected for a log line — replaces nothing)
    kept = set()
    for (it_, tgt_), m_ in pairs.items():
        if tgt_.startswith("self."):
            kept.add((it_, tgt_[5:]))
        elif (m_, tgt_) in alias:
            kept.add((it_, alias[(m_, tgt_)]))
    for a_, b_ in sorted(kept):
        res.instances += 1
        if (a_, b_) not in toggled:
            res.findings.append(Finding(
                "R-ZIP", f"replaced pair {a_} ~ {b_} is not toggled",
                f"self.{b_} holds one replacement per element of self.{a_}, but the pair is not among the segments that "
                f"reset_values / set_updated_values swap: after a simulation the model keeps the replacements "
                f"(value-equal copies) instead of the original objects, whose children still point to the originals", rel,
                new.lineno, "ModelingUpdate.__init__"))
    # twins
    rel2, tw = pm.find_function(MU, "ModelingUpdate.link_simulated_and_baseline_twins")
    res.instances += 1
    loop = next((s for s in tw.body if isinstance(s, ast.For)), None)
    gen_conds = []
    if loop is not None and isinstance(loop.iter, ast.Call) and _self_method_call(loop.iter) in T.methods \
            and isinstance(loop.target, ast.Tuple) and len(loop.target.elts) == 2:
        # the pairs come out of a generator method: `for a, b in zip(…): [if …: continue]; yield a, b` reads as that loop
        g = T.methods[_self_method_call(loop.iter)]
        gl = next((x for x in g.body if isinstance(x, ast.For)), None)
        ys = [y for y in ast.walk(g) if isinstance(y, ast.Yield)]
        if gl is not None and len(ys) == 1 and isinstance(ys[0].value, ast.Tuple) and isinstance(gl.target, ast.Tuple) \
                and [norm(x) for x in ys[0].value.elts] == [norm(x) for x in gl.target.elts]:
            from ..astutil import clone as _clz, substitute_stmt as _ssz
            ren = {a.id: ast.Name(id=b.id, ctx=ast.Load()) for a, b in zip(gl.target.elts, loop.target.elts)
                   if isinstance(a, ast.Name) and isinstance(b, ast.Name)}
            gen_conds = [_ssz(x, ren) for x in gl.body if isinstance(x, ast.If)]
            view = _clz(loop)
            view.iter = _clz(gl.iter)
            for n_ in ast.walk(view):
                for ch in ast.iter_child_nodes(n_):
                    ch._parent = n_
            loop = view
    ok = loop is not None and isinstance(loop.iter, ast.Call) and norm(loop.iter.func) == "zip" and \
        [norm(a) for a in loop.iter.args] == ["self.values_to_recompute", "self.recomputed_values"] and \
        ("values_to_recompute", "recomputed_values") in lock
    if not ok:
        res.findings.append(Finding(
            "R-ZIP", "twins", "link_simulated_and_baseline_twins does not zip values_to_recompute with a "
            "recomputed_values list built in lockstep: a baseline value would be paired with the wrong simulated twin",
            rel2, tw.lineno, "ModelingUpdate.link_simulated_and_baseline_twins"))
    else:
        # both directions are assigned
        res.instances += 1
        # (a pair skipped because nothing stands in the recomputed value's place — `if simulated is None: continue` —
        # has no twin to link; any other condition, a truth-value test in particular, leaves real values without twin)
        def only_absent(iff):
            t = iff.test
            return isinstance(t, ast.Compare) and len(t.ops) == 1 and isinstance(t.ops[0], ast.Is) \
                and isinstance(t.comparators[0], ast.Constant) and t.comparators[0].value is None \
                and len(iff.body) == 1 and isinstance(iff.body[0], ast.Continue) and not iff.orelse
        skips = [x for st in loop.body for x in ast.walk(st) if isinstance(x, (ast.Continue, ast.Break, ast.If))] + \
            [c_ for c_ in gen_conds if not only_absent(c_)]
        if skips:
            res.findings.append(Finding(
                "R-ZIP", "twins :: conditional",
                "link_simulated_and_baseline_twins skips some pairs (a condition / continue inside the loop): those "
                "recomputed baseline values have no simulated twin (per-usage-pattern dicts, for instance)", rel2,
                loop.lineno, "ModelingUpdate.link_simulated_and_baseline_twins"))
        a, b = [e.id for e in loop.target.elts] if isinstance(loop.target, ast.Tuple) else (None, None)
        links = {(norm(n.targets[0].value), n.targets[0].attr, norm(n.value)) for n in ast.walk(loop)
                 if isinstance(n, ast.Assign) and isinstance(n.targets[0], ast.Attribute)}
        # x.simulation_twin, y.baseline_twin = y, x
        for n in ast.walk(loop):
            if isinstance(n, ast.Assign) and isinstance(n.targets[0], ast.Tuple) and isinstance(n.value, ast.Tuple) \
                    and len(n.targets[0].elts) == len(n.value.elts):
                for t_, v_ in zip(n.targets[0].elts, n.value.elts):
                    if isinstance(t_, ast.Attribute):
                        links.add((norm(t_.value), t_.attr, norm(v_)))
        for need, what in (((a, "simulation_twin", b), "baseline value -> its simulated twin"),
                           ((b, "baseline_twin", a), "simulated value -> its baseline twin")):
            res.instances += 1
            if need not in links:
                res.findings.append(Finding("R-ZIP", f"twins :: {need[1]}", f"twin link missing or crossed: {what}", rel2,
                                            loop.lineno, "ModelingUpdate.link_simulated_and_baseline_twins"))
    # the twin links have one writer (besides the constructor's None): a second one that clears or re-points them can
    # undo the pairing of a later simulation that recomputes the same baseline values
    TWIN_WRITERS = {"ExplainableObject.__init__", "ModelingUpdate.link_simulated_and_baseline_twins"}
    callers = _callers_index(pm)
    for mod, (relm, tree, src) in sorted(pm.modules.items()):
        for n in ast.walk(tree):
            if isinstance(n, (ast.Assign, ast.AugAssign, ast.Delete)):
                tg = n.targets if isinstance(n, (ast.Assign, ast.Delete)) else [n.target]
                for t in tg:
                    if isinstance(t, ast.Attribute) and t.attr in ("simulation_twin", "baseline_twin"):
                        q, f_ = _enclosing(n)
                        res.instances += 1
                        if q not in TWIN_WRITERS and not _delegated(q, TWIN_WRITERS, callers):
                            res.findings.append(Finding(
                                "R-ZIP", f"twins :: {q} writes {t.attr}",
                                f"{q} writes {t.attr} (`{norm(n)[:60]}`): the twin links are set, pair by pair, by "
                                f"link_simulated_and_baseline_twins only; another writer (un-linking the values of a previous "
                                f"simulation, say) hits the baseline values that the current simulation has just paired",
                                relm, n.lineno, q))
    res.floor = 6
    return res


@rule("R-SNAP")
def r_snap(E):
    pm = E.pm
    res = RuleResult("R-SNAP", "the before-edit totals are snapshotted before the first model mutation (under the same "
                               "guard as the change log) and the at-creation totals after the first full computation")
    T = TxnAnalysis(pm)
    init = T.methods["__init__"]
    first_mut = None
    for s in init.body:
        for c in _calls(s):
            m = _self_method_call(c)
            if m and T.is_mut(m):
                first_mut = first_mut or c.lineno
    snaps = []
    for mname, mfn in T.methods.items():
        for n in ast.walk(mfn):
            if isinstance(n, ast.Assign) and "previous_total_" in norm(n.targets[0]):
                # position in the constructor: the statement itself, or the call of the helper that contains it
                if mname == "__init__":
                    pos = n.lineno
                else:
                    calls = [c.lineno for st in init.body for c in _calls(st) if _self_method_call(c) == mname]
                    pos = min(calls) if calls else None
                snaps.append((n, pos, mname))
    if not snaps:
        raise AnalysisError("previous_total_* snapshot vanished from ModelingUpdate")
    first_mut_any = None
    for st in ast.walk(init):
        if isinstance(st, ast.Call):
            m = _self_method_call(st)
            if m and T.is_mut(m):
                first_mut_any = st.lineno if first_mut_any is None else min(first_mut_any, st.lineno)
    first_mut = first_mut_any if first_mut_any is not None else first_mut
    for n, pos, mname in snaps:
        res.instances += 1
        if pos is None:
            res.findings.append(Finding("R-SNAP", f"ModelingUpdate.{mname} :: snapshot helper never called",
                                        f"the before-edit totals are taken in {mname}, which the constructor never calls",
                                        T.rel, n.lineno, f"ModelingUpdate.{mname}"))
            continue
        if first_mut is not None and pos > first_mut:
            res.findings.append(Finding(
                "R-SNAP", f"ModelingUpdate.__init__ :: {norm(n.targets[0])} after mutation",
                f"{norm(n.targets[0])} is taken after the changes were applied: the totals are computed on demand from "
                f"the current links, so the 'before' reference is the old values summed over the objects reachable "
                f"*after* the edit", T.rel, n.lineno, f"ModelingUpdate.{mname}"))
        # same conditions as the change log: there are changes and they belong to a system
        from ..astutil import path_conditions as _pc
        from ..paths import path_formula as _pf, implies as _imp, parse as _parse
        host = T.methods[mname]

        def conds_of(stmt, fn_):
            cs = list(_pc(stmt, fn_))
            if fn_ is not init:      # a helper: add the conditions under which the constructor calls it
                for st in ast.walk(init):
                    if isinstance(st, ast.stmt) and not isinstance(st, (ast.If, ast.For, ast.Try, ast.While)) and any(
                            _self_method_call(c) == fn_.name for c in _calls(st)):
                        cs += list(_pc(st, init))
                        break
            return cs
        f_snap = _pf(conds_of(n, host), host)
        logs = [(x, f_) for f_ in {id(init): init, id(host): host}.values() for x in ast.walk(f_)
                if isinstance(x, ast.stmt) and not isinstance(x, (ast.If, ast.For, ast.Try, ast.While, ast.FunctionDef))
                and "all_changes" in norm(x)]
        same_as_log = any(_imp(f_snap, _pf(conds_of(x, f_), f_)) and _imp(_pf(conds_of(x, f_), f_), f_snap)
                          for x, f_ in logs)
        if not (_imp(f_snap, _parse("self.changes_list and self.system")) and same_as_log):
            res.findings.append(Finding(
                "R-SNAP", f"ModelingUpdate.__init__ :: {norm(n.targets[0])} guard",
                f"{norm(n.targets[0])} is not taken under the same guard as the change log", T.rel, n.lineno,
                "ModelingUpdate.__init__"))
        # what is snapshotted: the matching on-demand total
        want = "total_energy_footprint_sum_over_period" if "energy" in norm(n.targets[0]) else \
            "total_fabrication_footprint_sum_over_period"
        if want not in norm(n.value):
            res.findings.append(Finding(
                "R-SNAP", f"ModelingUpdate.__init__ :: {norm(n.targets[0])} source",
                f"{norm(n.targets[0])} is assigned {norm(n.value)[:60]}, not the system's {want}", T.rel, n.lineno,
                "ModelingUpdate.__init__"))
    rel, ai = pm.find_function("core/system.py", "System.after_init")
    from ..astutil import inlined_view as _iv2
    # steps split out of after_init (those that take the initial totals) read as its own statements
    ai = _iv2(ai, pm.helper_finder("System"), only=lambda x: isinstance(x, ast.Assign) and "initial_total_" in norm(x.targets[0]))
    comp = None
    for s in ai.body:
        for c in _calls(s):
            if _self_method_call(c) == "compute_calculated_attributes":
                comp = c.lineno
    inits = [n for n in ast.walk(ai) if isinstance(n, ast.Assign) and "initial_total_" in norm(n.targets[0])]
    if not inits or comp is None:
        raise AnalysisError("System.after_init: initial totals or compute_calculated_attributes vanished")
    for n in inits:
        res.instances += 1
        want = "total_energy_footprint_sum_over_period" if "energy" in norm(n.targets[0]) else \
            "total_fabrication_footprint_sum_over_period"
        if n.lineno < comp:
            res.findings.append(Finding("R-SNAP", f"System.after_init :: {norm(n.targets[0])} before computation",
                                        f"{norm(n.targets[0])} is taken before the system is computed", rel, n.lineno,
                                        "System.after_init"))
        if want not in norm(n.value):
            res.findings.append(Finding("R-SNAP", f"System.after_init :: {norm(n.targets[0])} source",
                                        f"{norm(n.targets[0])} is assigned {norm(n.value)[:60]}, not {want}", rel,
                                        n.lineno, "System.after_init"))
    res.samples = [{"snapshot": norm(n)[:90], "first_mutating_call_line": first_mut} for n, _, _ in snaps]
    res.floor = 4
    return res


# functions allowed to store into a model object's attribute dictionary without ModelingObject.__setattr__'s update
# logic, each with its reason (confirmed by reading)
ENTRY_ALLOWED = {
    "ObjectLinkedToModelingObj.replace_in_mod_obj_container_without_recomputation":
        "the internal replace primitive of ModelingUpdate (bookkeeping done by its caller)",
    "json_to_system": "objects under construction, trigger_modeling_updates is False",
    "ModelingObject.__setattr__": "the entry point itself",
    "ContextualModelingObjectAttribute.__setattr__": "wrapper: own fields locally, everything else forwarded",
    "GenAIModel.__setattr__": "override delegating to super().__setattr__",
    "BoaviztaCloudServer.__setattr__": "override delegating to super().__setattr__",
    "ExplainableObject.__copy__": "re-initialises a fresh ExplainableObject (not a model object)",
}


def _callers_index(pm):
    """method / function name -> set of qualified names of the functions that call something of that name"""
    idx = {}
    for mod, (rel, tree, src) in pm.modules.items():
        # receivers that are file objects (`with open(…) as f:` / `f = open(…)`): f.write(…) is no call into the package
        files = set()
        for n in ast.walk(tree):
            if isinstance(n, ast.withitem) and isinstance(n.context_expr, ast.Call) and norm(n.context_expr.func) in ("open", "io.open") \
                    and isinstance(n.optional_vars, ast.Name):
                files.add((id(_enclosing(n.context_expr)[1]), n.optional_vars.id))
            if isinstance(n, ast.Assign) and isinstance(n.value, ast.Call) and norm(n.value.func) in ("open", "io.open", "StringIO", "io.StringIO") \
                    and len(n.targets) == 1 and isinstance(n.targets[0], ast.Name):
                files.add((id(_enclosing(n.value)[1]), n.targets[0].id))
        for c in ast.walk(tree):
            if isinstance(c, ast.Call):
                nm = c.func.attr if isinstance(c.func, ast.Attribute) else c.func.id if isinstance(c.func, ast.Name) else None
                if nm and isinstance(c.func, ast.Attribute) and isinstance(c.func.value, ast.Name) \
                        and (id(_enclosing(c)[1]), c.func.value.id) in files:
                    continue
                if nm:
                    idx.setdefault(nm, set()).add(_enclosing(c)[0])
    # calls that the canonical form replaced by the callee's body still count as calls
    for nm, into in (getattr(pm, "canon_stats", {}) or {}).get("inlined_into", {}).items():
        idx.setdefault(nm, set()).update(into)
    return idx


def _delegated(q, allowed, callers, depth=3):
    """q is not in the frozen writer set itself, but every function that calls it is (transitively): a step split out of
    an allowed writer and used by nobody else inherits the allowance; any other caller makes it a new writer"""
    name = q.split(".")[-1]
    if name.startswith("__") or depth == 0:
        return False
    cs = callers.get(name, set()) - {q}
    if not cs:
        return False
    return all(c in allowed or _delegated(c, allowed, callers, depth - 1) for c in cs)


def _enclosing(n):
    fn, cls = None, None
    x = n
    while x is not None:
        if isinstance(x, ast.FunctionDef) and fn is None:
            fn = x
        if isinstance(x, ast.ClassDef) and cls is None:
            cls = x
        x = getattr(x, "_parent", None)
    return (f"{cls.name}.{fn.name}" if cls is not None and fn is not None else (fn.name if fn is not None else "<module>")), fn


@rule("R-RECOMP")
def r_recomp(E):
    pm = E.pm
    res = RuleResult("R-RECOMP", "whether an accepted edit is followed by a recomputation does not depend on the edited object "
                                 "belonging to a system: in ModelingUpdate.__init__ the steps that work out what to recompute "
                                 "(the object chain, values_to_recompute), apply the changes and recompute run under no "
                                 "condition on self.system, and values_to_recompute is always what the chain generator "
                                 "returned (an object edited before it is linked — a journey whose steps change — keeps "
                                 "calculated attributes that nothing recomputes at linking time)")
    from ..astutil import path_conditions as _pc
    T = TxnAnalysis(pm)
    init = T.methods.get("__init__")
    if init is None:
        raise AnalysisError("ModelingUpdate.__init__ vanished")
    core = []
    for st in ast.walk(init):
        if isinstance(st, ast.Assign) and any(norm(t) in ("self.values_to_recompute", "self.mod_objs_computation_chain")
                                              for t in st.targets):
            core.append((st, norm(st.targets[0])))
        elif isinstance(st, ast.Expr) and isinstance(st.value, ast.Call) and _self_method_call(st.value) in (
                "apply_changes", "recompute_attributes"):
            core.append((st, f"self.{_self_method_call(st.value)}()"))
    # a chain kept as a cached property is computed where the constructor first reads it
    for attr in ("values_to_recompute", "mod_objs_computation_chain"):
        if any(w == f"self.{attr}" for _, w in core):
            continue
        prop = T.methods.get(attr)
        if prop is not None and any(norm(d).endswith("cached_property") for d in prop.decorator_list):
            first = next((st for st in ast.walk(init) if isinstance(st, ast.stmt) and not isinstance(st, (ast.If, ast.Try, ast.For, ast.While, ast.With, ast.FunctionDef))
                          and any(isinstance(x, ast.Attribute) and x.attr == attr and norm(x.value) == "self"
                                  for x in ast.walk(st))), None)
            if first is not None:
                core.append((first, f"self.{attr}"))
    if len({w for _, w in core}) < 4:
        res.undecided.append(f"ModelingUpdate.__init__: core steps found: {sorted({w for _, w in core})} (4 expected)")
        return res
    for st, what in core:
        res.instances += 1
        sysconds = [t for t, pol in _pc(st, init) if any(
            (isinstance(x, ast.Attribute) and x.attr in ("system", "systems")) or (isinstance(x, ast.Name) and x.id == "system")
            for x in ast.walk(t))]
        if sysconds:
            res.findings.append(Finding(
                "R-RECOMP", f"ModelingUpdate.__init__ :: {what} depends on the system",
                f"ModelingUpdate.__init__ runs `{norm(st)[:70]}` only when `{norm(sysconds[0])[:50]}`: an edit of an "
                f"object that is not linked to a system (yet, or any more) is applied but nothing is recomputed, and the "
                f"recomputation done when it is linked later does not cover attributes such as UsageJourney.duration", T.rel,
                st.lineno, "ModelingUpdate.__init__"))
        if isinstance(st, ast.Assign) and isinstance(st.value, (ast.List, ast.Tuple, ast.Constant)) \
                and what == "self.values_to_recompute":
            res.findings.append(Finding(
                "R-RECOMP", "ModelingUpdate.__init__ :: values_to_recompute set to a literal",
                f"ModelingUpdate.__init__ sets `{norm(st)[:60]}`: on the paths where this assignment is the last one "
                f"nothing is recomputed after the changes are applied", T.rel, st.lineno, "ModelingUpdate.__init__"))
    res.floor = 4
    return res


@rule("R-ENTRY")
def r_entry(E):
    pm = E.pm
    res = RuleResult("R-ENTRY", "the only code that stores into a model object's attribute dictionary without going "
                                "through ModelingObject.__setattr__ is a frozen set of framework functions; every "
                                "__setattr__ override delegates with the same arguments; the wrapper forwards")
    callers = _callers_index(pm)
    for mod, (rel, tree, src) in sorted(pm.modules.items()):
        for n in ast.walk(tree):
            site = None
            if isinstance(n, (ast.Assign, ast.AugAssign)):
                for t in (n.targets if isinstance(n, ast.Assign) else [n.target]):
                    b = t
                    while isinstance(b, ast.Subscript):
                        b = b.value
                        if isinstance(b, ast.Attribute) and b.attr == "__dict__":
                            site = n
                        if isinstance(b, ast.Call) and isinstance(b.func, ast.Name) and b.func.id == "vars":
                            site = n
            if isinstance(n, ast.Call):
                f = n.func
                if isinstance(f, ast.Attribute) and f.attr == "__setattr__" and (
                        (isinstance(f.value, ast.Call) and norm(f.value.func) == "super")
                        or (isinstance(f.value, ast.Name) and f.value.id == "object")):
                    site = n
                if isinstance(f, ast.Attribute) and f.attr in ("update", "setdefault", "pop") and \
                        isinstance(f.value, ast.Attribute) and f.value.attr == "__dict__":
                    site = n
            if site is None:
                continue
            q, fn = _enclosing(site)
            res.instances += 1
            if q not in ENTRY_ALLOWED and _delegated(q, set(ENTRY_ALLOWED), callers):
                if len(res.samples) < 6:
                    res.samples.append({"function": q, "site": norm(site)[:80],
                                        "allowed_because": "a step of an allowed writer, called by nothing else"})
                continue
            if q not in ENTRY_ALLOWED:
                res.findings.append(Finding(
                    "R-ENTRY", f"{q} :: {norm(site)[:100]}",
                    f"{q} stores into an object's attribute dictionary directly ({norm(site)[:70]}): that edit is never "
                    f"validated and never triggers recomputation", rel, site.lineno, q))
            elif len(res.samples) < 6:
                res.samples.append({"function": q, "site": norm(site)[:80], "allowed_because": ENTRY_ALLOWED[q]})
    from ..paths import enumerate_paths, path_formula, implies, consistent, parse, formula
    from ..astutil import fully_expanded, inline_helpers

    def is_event(n):
        return isinstance(n, ast.Call) and (
            (isinstance(n.func, ast.Attribute) and n.func.attr == "__setattr__") or
            (isinstance(n.func, ast.Name) and n.func.id in ("ModelingUpdate", "setattr")))

    def super_setattr_calls(path):
        return [c for c in path.calls() if isinstance(c.func, ast.Attribute) and c.func.attr == "__setattr__"
                and isinstance(c.func.value, ast.Call) and norm(c.func.value.func) == "super"]

    # overrides of __setattr__ in model classes: every path that does not raise ends in super().__setattr__ with the
    # same name / value (and the validity flag threaded through)
    for cn, ci in sorted(pm.classes.items()):
        if not pm.is_model(cn) or cn == "ModelingObject":
            continue
        fn = next((f for f in pm.own_methods(cn) if f.name == "__setattr__"), None)
        if fn is None:
            continue
        res.instances += 1
        params = [a.arg for a in fn.args.args]
        ok = True
        for path in enumerate_paths(inline_helpers(fn, pm.helper_finder(cn), only=is_event), is_event):
            if path.end == "raise":
                continue
            sc = super_setattr_calls(path)
            if len(sc) != 1 or [norm(fully_expanded(a, fn)) for a in sc[0].args[:2]] != params[1:3]:
                ok = False
                continue
            if len(params) > 3:
                kws = {k.arg: norm(k.value) for k in sc[0].keywords}
                extra = [norm(a) for a in sc[0].args[2:]]
                if kws.get(params[3]) != params[3] and extra != [params[3]]:
                    ok = False
        if not ok:
            res.findings.append(Finding(
                "R-ENTRY", f"{cn}.__setattr__ override",
                f"{cn}.__setattr__ does not end every non-raising path with super().__setattr__({', '.join(params[1:])}): "
                f"some assignments bypass validation and the update machinery", ci.path, fn.lineno, f"{cn}.__setattr__"))
    # the wrapper forwards every non-wrapper name: on every path, either the name is one of the wrapper's own three
    # fields and it is stored locally, or it is forwarded to the wrapped object with setattr
    rel, fn = pm.find_function(CM, "ContextualModelingObjectAttribute.__setattr__")
    res.instances += 1
    ps = [a.arg for a in fn.args.args]
    fwd_ok = len(ps) == 3
    own_tests = [c for c in ast.walk(fn) if isinstance(c, ast.Compare) and len(c.ops) == 1
                 and isinstance(c.ops[0], (ast.In, ast.NotIn)) and norm(c.left) == (ps[1] if len(ps) > 1 else "")]
    names, own = None, None
    if own_tests:
        coll = own_tests[0].comparators[0]
        lit = coll
        if isinstance(coll, ast.Name):
            modname = next((m for m, (r, t, _) in pm.modules.items() if r == rel), None)
            lit = pm._module_const(modname, coll.id) if modname else None
            if isinstance(lit, tuple):
                lit = lit[-1]
        if isinstance(lit, (ast.List, ast.Tuple, ast.Set)) and all(isinstance(e, ast.Constant) for e in lit.elts):
            names = {e.value for e in lit.elts}
        own = formula(ast.Compare(left=own_tests[0].left, ops=[ast.In()], comparators=[coll]), fn)
    # the wrapper's own fields: what its methods, and those of the link base class it inherits, assign on `self` — on the
    # pinned tree _value, modeling_obj_container and attr_name_in_mod_obj_container. A name listed but never assigned
    # locally would swallow an assignment meant for the wrapped object; a field not listed would be forwarded to it
    own_fields = set()
    for k_ in pm.mro("ContextualModelingObjectAttribute"):
        if k_ in pm.classes and "ObjectLinkedToModelingObj" in pm.mro(k_):
            for m_ in pm.own_methods(k_):
                if m_.name == "__setattr__":
                    continue
                for a_ in ast.walk(m_):
                    if isinstance(a_, ast.Assign):
                        for t_ in a_.targets:
                            if isinstance(t_, ast.Attribute) and isinstance(t_.value, ast.Name) and t_.value.id == m_.args.args[0].arg:
                                own_fields.add(t_.attr)
    if not {"_value", "modeling_obj_container", "attr_name_in_mod_obj_container"} <= own_fields:
        res.undecided.append(f"the wrapper's own fields could not be derived ({sorted(own_fields)})")
    if names != own_fields:
        fwd_ok = False
    if fwd_ok:
        want_fwd = f"setattr({ps[0]}._value, {ps[1]}, {ps[2]})"
        for path in enumerate_paths(fn, is_event):
            if path.end == "raise":
                continue
            pf = path_formula(path.conds, fn)
            calls = [norm(c) for c in path.calls()]
            if consistent(pf, ("not", own)) and want_fwd not in calls:
                fwd_ok = False
            if consistent(pf, own) and not any(
                    [norm(a) for a in c.args[:2]] == ps[1:3] for c in super_setattr_calls(path)):
                fwd_ok = False
    if not fwd_ok:
        res.findings.append(Finding(
            "R-ENTRY", "ContextualModelingObjectAttribute.__setattr__ forward",
            "the link wrapper no longer forwards every non-wrapper attribute assignment to the wrapped object with "
            "setattr (assignments through a link would land on the wrapper and be lost)", rel, fn.lineno,
            "ContextualModelingObjectAttribute.__setattr__"))
    # the entry point: a path stores directly only for bookkeeping names, calculated attributes or objects under
    # construction; every other path goes into ModelingUpdate([[<current value of the attribute>, <new value>]])
    rel, fn0 = pm.find_function(MO, "ModelingObject.__setattr__")
    res.instances += 1
    fn = inline_helpers(fn0, pm.helper_finder("ModelingObject"), only=is_event)
    ps = [a.arg for a in fn.args.args]
    G = parse(f"{ps[1]} in {ps[0]}.attributes_that_shouldnt_trigger_update_logic or "
              f"{ps[1]} in {ps[0]}.calculated_attributes or not {ps[0]}.trigger_modeling_updates")
    update_seen, update_missing, bad_store = False, None, None
    for path in enumerate_paths(fn, is_event):
        if path.end == "raise":
            continue
        pf = path_formula(path.conds, fn)
        mus = []
        for c in path.calls():
            if isinstance(c.func, ast.Name) and c.func.id == "ModelingUpdate" and c.args and isinstance(c.args[0], ast.List) \
                    and len(c.args[0].elts) == 1 and isinstance(c.args[0].elts[0], ast.List) \
                    and len(c.args[0].elts[0].elts) == 2:
                a, b = c.args[0].elts[0].elts
                if norm(fully_expanded(a, fn)).startswith(f"getattr({ps[0]}, {ps[1]}") and norm(fully_expanded(b, fn)) == ps[2]:
                    mus.append(c)
        direct = implies(pf, G)
        if super_setattr_calls(path) and not direct:
            bad_store = path
        if not direct:
            if mus:
                update_seen = True
            else:
                update_missing = path
    if not update_seen or update_missing is not None:
        res.findings.append(Finding(
            "R-ENTRY", "ModelingObject.__setattr__ update branch",
            "ModelingObject.__setattr__ no longer routes a post-init assignment into "
            "ModelingUpdate([[<current value of the attribute>, <new value>]])", rel, fn0.lineno,
            "ModelingObject.__setattr__"))
    if bad_store is not None:
        cond = " and ".join(("" if pol else "not ") + "(" + norm(t) + ")" for t, pol in bad_store.conds)
        res.findings.append(Finding(
            "R-ENTRY", "ModelingObject.__setattr__ direct-store condition",
            f"the direct-store branch is taken under `{cond[:160]}`: it must be limited to calculated attributes and "
            f"objects under construction", rel, fn0.lineno, "ModelingObject.__setattr__"))
    res.floor = 10
    return res


EDGE_WRITERS = {
    "direct_children_with_id": {"ExplainableObject.__init__", "ExplainableObject.add_child_to_direct_children_with_id",
                                "ExplainableObject.remove_child_from_direct_children_with_id"},
    "direct_ancestors_with_id": {"ExplainableObject.__init__"},
    "contextual_modeling_obj_containers": {"ModelingObject.__init__",
                                           "ModelingObject.add_to_contextual_modeling_obj_containers",
                                           "json_to_system"},
    "modeling_obj_container": {"ObjectLinkedToModelingObj.__init__", "ObjectLinkedToModelingObj.set_modeling_obj_container",
                               "ContextualModelingObjectAttribute.__init__"},
    "attr_name_in_mod_obj_container": {"ObjectLinkedToModelingObj.__init__",
                                       "ObjectLinkedToModelingObj.set_modeling_obj_container",
                                       "ContextualModelingObjectAttribute.__init__"},
}
MUTATORS = {"append", "extend", "insert", "remove", "pop", "clear", "sort", "reverse"}


def _flows_to_own_store(n, f, pm, depth=4, _seen=None):
    """the value of expression node n (inside function f) reaches an argument of super().__setattr__ / super().__setitem__:
    directly, through a local name, through f's return value into its callers (self.f(...)), or as an argument of a
    same-class method that stores its parameter"""
    seen = set() if _seen is None else _seen
    if id(n) in seen or depth < 0:
        return False
    seen.add(id(n))
    par = getattr(n, "_parent", None)
    if isinstance(par, ast.keyword):
        par = getattr(par, "_parent", None)
    if isinstance(par, ast.Call) and n is not par.func:
        if norm(par.func) in ("super().__setattr__", "super().__setitem__"):
            return True
        if isinstance(par.func, ast.Attribute) and isinstance(par.func.value, ast.Name) and par.func.value.id == "self":
            cls = _enclosing(f)[0].split(".")[0]
            g = pm.find_method(cls, par.func.attr)[1] if cls in pm.classes else None
            if g is not None:
                ps = [a.arg for a in g.args.args][1:]
                kw = next((k.arg for k in par.keywords if k.value is n), None)
                pname = kw if kw else (ps[par.args.index(n)] if n in par.args and par.args.index(n) < len(ps) else None)
                if pname:
                    return any(_flows_to_own_store(x, g, pm, depth - 1, seen) for x in ast.walk(g)
                               if isinstance(x, ast.Name) and x.id == pname and isinstance(x.ctx, ast.Load))
        return False
    if isinstance(par, ast.Assign) and par.value is n:
        names = {t.id for t in par.targets if isinstance(t, ast.Name)}
        return any(_flows_to_own_store(x, f, pm, depth, seen) for x in ast.walk(f)
                   if isinstance(x, ast.Name) and x.id in names and isinstance(x.ctx, ast.Load))
    if isinstance(par, ast.Return):
        for mod, (rel, tree, src) in pm.modules.items():
            for c in ast.walk(tree):
                if isinstance(c, ast.Call) and isinstance(c.func, ast.Attribute) and c.func.attr == f.name \
                        and isinstance(c.func.value, ast.Name) and c.func.value.id == "self":
                    cf = _enclosing(c)[1]
                    if cf is not None and _flows_to_own_store(c, cf, pm, depth - 1, seen):
                        return True
        # a function listed in a module-level dispatch table and called through the loop that walks the table
        # (`for applies, wrap in TABLE: if applies(v): x = wrap(…)`)
        for mod, (rel, tree, src) in pm.modules.items():
            for st in tree.body:
                if not (isinstance(st, ast.Assign) and isinstance(st.targets[0], ast.Name)
                        and isinstance(st.value, (ast.Tuple, ast.List))):
                    continue
                pos = None
                for row in st.value.elts:
                    if isinstance(row, (ast.Tuple, ast.List)):
                        for i, x in enumerate(row.elts):
                            if isinstance(x, ast.Name) and x.id == f.name:
                                pos = i
                if pos is None:
                    continue
                tname = st.targets[0].id
                for m2, (r2, t2, _s2) in pm.modules.items():
                    for loop in ast.walk(t2):
                        # (the canonical model may have put the literal table in place of its name)
                        over_table = isinstance(loop, ast.For) and (
                            (isinstance(loop.iter, ast.Name) and loop.iter.id == tname)
                            or (isinstance(loop.iter, (ast.Tuple, ast.List)) and any(
                                isinstance(x, ast.Name) and x.id == f.name for x in ast.walk(loop.iter))))
                        if over_table and isinstance(loop.target, ast.Tuple) and pos < len(loop.target.elts) \
                                and isinstance(loop.target.elts[pos], ast.Name):
                            var = loop.target.elts[pos].id
                            for c in ast.walk(loop):
                                if isinstance(c, ast.Call) and isinstance(c.func, ast.Name) and c.func.id == var:
                                    cf = _enclosing(c)[1]
                                    if cf is not None and _flows_to_own_store(c, cf, pm, depth - 1, seen):
                                        return True
        return False
    return False


def _identity_mirror_remover(n, fn):
    """`self.F = [x for x in self.F if x is not <parameter>]` as the only write of fn: the list without one given object"""
    ps = [a.arg for a in fn.args.args][1:]
    if not (isinstance(n, ast.Assign) and len(n.targets) == 1 and isinstance(n.value, (ast.ListComp,)) and len(ps) == 1):
        return False
    comp = n.value
    if len(comp.generators) != 1 or norm(comp.generators[0].iter) != norm(n.targets[0]) or len(comp.generators[0].ifs) != 1:
        return False
    g = comp.generators[0]
    t = g.ifs[0]
    if norm(comp.elt) != norm(g.target):
        return False
    ok = isinstance(t, ast.Compare) and len(t.ops) == 1 and isinstance(t.ops[0], ast.IsNot) and \
        {norm(t.left), norm(t.comparators[0])} == {norm(g.target), ps[0]}
    other_writes = [x for x in ast.walk(fn) if isinstance(x, (ast.Assign, ast.AugAssign, ast.Delete)) and x is not n] + \
        [c for c in ast.walk(fn) if isinstance(c, ast.Call) and isinstance(c.func, ast.Attribute) and c.func.attr in MUTATORS]
    return ok and not other_writes


def _wrapper_reregisters_on_attach(pm):
    """a registry that forgets detached wrappers must learn them again when they are attached again (rollback, reset of a
    simulation): the wrapper's own set_modeling_obj_container calls add_to_contextual_modeling_obj_containers(self) on
    every path where the new container is not None"""
    from ..paths import enumerate_paths, path_formula, consistent, parse
    m = next((f for f in pm.own_methods("ContextualModelingObjectAttribute") if f.name == "set_modeling_obj_container"), None) \
        if "ContextualModelingObjectAttribute" in pm.classes else None
    if m is None or len(m.args.args) < 2:
        return False
    newp = m.args.args[1].arg
    is_add = lambda c: isinstance(c, ast.Call) and isinstance(c.func, ast.Attribute) \
        and c.func.attr == "add_to_contextual_modeling_obj_containers"
    for path in enumerate_paths(m, is_add):
        if path.end == "raise":
            continue
        if consistent(path_formula(path.conds, m), parse(f"{newp} is not None")) and not any(is_add(c) for c in path.calls()):
            return False
    return True


@rule("R-EDGE")
def r_edge(E):
    pm = E.pm
    res = RuleResult("R-EDGE", "the bookkeeping of both ends of a dependency / link has single writers, and attaching / "
                               "detaching a value registers / deregisters it on the same ancestors")
    edge_callers = _callers_index(pm)
    for mod, (rel, tree, src) in sorted(pm.modules.items()):
        for n in ast.walk(tree):
            hits = []
            if isinstance(n, (ast.Assign, ast.AugAssign)):
                for t in (n.targets if isinstance(n, ast.Assign) else [n.target]):
                    for x in ast.walk(t):
                        if isinstance(x, ast.Attribute) and x.attr in EDGE_WRITERS and isinstance(x.ctx, ast.Store):
                            hits.append(x.attr)
                        if isinstance(x, ast.Subscript) and isinstance(x.ctx, ast.Store) \
                                and isinstance(x.value, ast.Attribute) and x.value.attr == "__dict__":
                            k = x.slice
                            if isinstance(k, ast.Constant) and k.value in EDGE_WRITERS:
                                hits.append(k.value)
                    if isinstance(t, ast.Subscript) and isinstance(t.value, ast.Attribute) and t.value.attr in EDGE_WRITERS:
                        hits.append(t.value.attr)
            if isinstance(n, ast.Call) and isinstance(n.func, ast.Attribute) and n.func.attr in MUTATORS \
                    and isinstance(n.func.value, ast.Attribute) and n.func.value.attr in EDGE_WRITERS:
                hits.append(n.func.value.attr)
            for h in hits:
                q, fn = _enclosing(n)
                res.instances += 1
                if q == "ModelingObject.add_to_contextual_modeling_obj_containers" and not (
                        isinstance(n, ast.Call) and n.func.attr == "append"):
                    res.findings.append(Finding(
                        "R-EDGE", f"{q} rewrites {h} :: {norm(n)[:90]}",
                        f"{q} rebuilds the link registry instead of only appending to it: wrappers that are not attached "
                        f"*yet* (a batch update creates all of them before attaching any) are dropped, so an object "
                        f"referenced twice in one update is reported by one holder only", rel, n.lineno, q))
                    continue
                if q not in EDGE_WRITERS[h] and _delegated(q, set(EDGE_WRITERS[h]), edge_callers):
                    continue
                if q not in EDGE_WRITERS[h] and h == "contextual_modeling_obj_containers" and fn is not None \
                        and _identity_mirror_remover(n, fn) and _wrapper_reregisters_on_attach(pm) and all(
                            c_.startswith("ContextualModelingObjectAttribute.") and c_.split(".")[-1] in (
                                "set_modeling_obj_container", "__init__")
                            for c_ in edge_callers.get(fn.name, {"?"})):
                    # the mirror of add_to_…: the registry pruned of exactly one wrapper, chosen by *identity* (all wrappers
                    # of one object compare equal), called by the wrapper's own attach / detach primitive only
                    if len(res.samples) < 6:
                        res.samples.append({"writer": q, "field": h, "verdict": "identity-filtered removal, called by the "
                                                                                  "wrapper's attach / detach primitive only"})
                    continue
                if q not in EDGE_WRITERS[h]:
                    res.findings.append(Finding(
                        "R-EDGE", f"{q} writes {h} :: {norm(n)[:90]}",
                        f"{q} writes the bookkeeping field {h}; only {sorted(EDGE_WRITERS[h])} may: the two ends of a "
                        f"dependency / link can disagree", rel, n.lineno, q))
                elif len(res.samples) < 5:
                    res.samples.append({"field": h, "writer": q, "site": norm(n)[:70]})
    # attach / detach pairing in ExplainableObject.set_modeling_obj_container
    rel, fn = pm.find_function(EB, "ExplainableObject.set_modeling_obj_container")
    # (split into steps — check, unregister, register — it reads as the method it was)
    from ..astutil import inlined_view as _iv_ed
    fn = _iv_ed(fn, pm.helper_finder("ExplainableObject"), rounds=2, max_body=20)
    res.instances += 1
    from ..astutil import enorm
    from ..paths import enumerate_paths, path_formula, consistent, parse

    def edge_loop(x, nm):
        return isinstance(x, ast.For) and enorm(x.iter, fn) == "self.direct_ancestors_with_id" and any(
            isinstance(c.func, ast.Attribute) and c.func.attr == nm for c in _calls(x))
    is_sup = lambda x: isinstance(x, ast.Call) and norm(x.func) == "super().set_modeling_obj_container"
    deregs = [x for x in ast.walk(fn) if edge_loop(x, "remove_child_from_direct_children_with_id")]
    regs = [x for x in ast.walk(fn) if edge_loop(x, "add_child_to_direct_children_with_id")]
    sups = [x for x in ast.walk(fn) if is_sup(x)]
    probs = []
    if not sups or not deregs or not regs:
        probs.append("the deregistration loop, the super() call or the registration loop is missing")
    else:
        # on every path: deregistration, then the change of container, then registration (whichever of them it runs);
        # which paths must run them is R-ATTACH's clause
        ps = [a.arg for a in fn.args.args]
        for path in enumerate_paths(fn, lambda n: isinstance(n, ast.For) or is_sup(n)):
            if path.end == "raise":
                continue
            order = []
            for st in path.stmts:
                for x in ast.walk(st):
                    if any(x is d for d in deregs):
                        order.append("D")
                    elif any(x is r for r in regs):
                        order.append("R")
                    elif is_sup(x):
                        order.append("S")
            if "S" not in order or order != sorted(order, key="DSR".index):
                probs.append("deregistration must precede, and registration follow, the change of container")
                break
            pf = path_formula(path.conds, fn)
            if consistent(pf, parse("self.modeling_obj_container is not None")) and "D" not in order:
                probs.append("deregistration is skipped on a path where the value had a container")
                break
            if len(ps) > 1 and consistent(pf, parse(f"{ps[1]} is not None")) and "R" not in order:
                probs.append("registration is skipped on a path where the value gets a container")
                break
        for loops, nm in ((deregs, "remove_child_from_direct_children_with_id"), (regs, "add_child_to_direct_children_with_id")):
            for loop in loops:
                c = next((c for c in _calls(loop) if isinstance(c.func, ast.Attribute) and c.func.attr == nm), None)
                if c is not None and not any(isinstance(st, ast.Expr) and st.value is c for st in loop.body):
                    probs.append(f"{nm} is applied to some ancestors only (it is nested under a condition inside the "
                                 f"loop): when values are re-attached children-first (rollback, reset_values) the edge "
                                 f"to a not-yet-re-attached ancestor is never recreated")
                if c is None or norm(c.func.value) != norm(loop.target) or \
                        not any(norm(k.value) == "self" for k in c.keywords) and [norm(a) for a in c.args] != ["self"]:
                    probs.append(f"{nm} is not called on each ancestor with direct_child=self")
    for p in probs:
        res.findings.append(Finding("R-EDGE", f"ExplainableObject.set_modeling_obj_container :: {p[:90]}",
                                    f"ExplainableObject.set_modeling_obj_container: {p}: a dependency would be listed "
                                    f"on one end only", rel, fn.lineno, "ExplainableObject.set_modeling_obj_container"))
    # the hook that tells a child which ancestors to record: an attached value answers with itself — in the base class
    # and in every override (a kind of value that passes its own ancestors through while attached never becomes an
    # ancestor: edits of it recompute nothing)
    from ..astutil import returned_expr
    for cn in sorted(pm.classes):
        if "ExplainableObject" not in pm.mro(cn):
            continue
        hk = next((m for m in pm.own_methods(cn) if m.name == "return_direct_ancestors_with_id_to_child"), None)
        if hk is None:
            continue
        res.instances += 1
        attached = parse(f"{hk.args.args[0].arg}.modeling_obj_container is not None")
        for path in enumerate_paths(hk):
            if path.end != "return" or not consistent(path_formula(path.conds, hk), attached):
                continue
            rv = returned_expr(path.stmts[-1], hk)
            delegates = isinstance(rv, ast.Call) and norm(rv.func) == "super().return_direct_ancestors_with_id_to_child"
            if not delegates and norm(rv) != f"[{hk.args.args[0].arg}]":
                res.findings.append(Finding(
                    "R-EDGE", f"{cn}.return_direct_ancestors_with_id_to_child while attached",
                    f"{cn}.return_direct_ancestors_with_id_to_child returns `{norm(rv)[:60]}` on a path where the value is "
                    f"attached to a model object, instead of [self]: values computed from an attached {cn} do not record it "
                    f"as ancestor, so it has no children and editing it recomputes nothing", pm.path_of(cn), hk.lineno,
                    f"{cn}.return_direct_ancestors_with_id_to_child"))
                break
    # a wrapper / value constructed *with* its container (the constructor writes the bookkeeping field from a parameter)
    # is registered as a holder at once: the function that builds it must be the container's own storing primitive and
    # store that very object (super().__setattr__ / super().__setitem__); handed to anything else — the public
    # __setattr__ wraps again — it stays registered on the target as a holder that nothing ever detaches
    from ..astutil import _bind_call
    born = {}
    for cn in sorted(pm.classes):
        ini_c = next((m for m in pm.own_methods(cn) if m.name == "__init__"), None)
        if ini_c is None:
            continue
        ps = {a.arg for a in ini_c.args.args[1:]}
        for n in ast.walk(ini_c):
            if isinstance(n, ast.Assign) and isinstance(n.value, ast.Name) and n.value.id in ps and any(
                    isinstance(t, ast.Attribute) and t.attr == "modeling_obj_container" and norm(t.value) == "self"
                    for t in n.targets):
                born[cn] = (ini_c, n.value.id)
    for mod, (rel, tree, src) in sorted(pm.modules.items()):
        for n in ast.walk(tree):
            if not (isinstance(n, ast.Call) and isinstance(n.func, ast.Name) and n.func.id in born):
                continue
            ini_c, pname = born[n.func.id]
            given = _bind_call(ini_c, n).get(pname)
            if given is None or (isinstance(given, ast.Constant) and given.value is None):
                continue
            res.instances += 1
            q, f = _enclosing(n)
            stored = f is not None and _flows_to_own_store(n, f, pm)
            if not stored:
                res.findings.append(Finding(
                    "R-EDGE", f"{q} builds an attached {n.func.id} it does not store",
                    f"{q} constructs `{norm(n)[:80]}` with its container filled in — the constructor registers it on the "
                    f"wrapped object as a holder — but does not store that object itself (super().__setattr__ / "
                    f"super().__setitem__): whatever stores the link wraps the target again, and the first wrapper remains a "
                    f"holder that no later edit detaches (phantom reverse link: wrong jobs / usage patterns / systems, "
                    f"objects that can no longer be deleted)", rel, n.lineno, q))
    # the ancestor list built at construction takes both parents
    rel, ini = pm.find_function(EB, "ExplainableObject.__init__")
    from ..astutil import inlined_view as _iv
    ini = _iv(ini, pm.helper_finder("ExplainableObject"), only=lambda x: isinstance(x, ast.Attribute)
              and x.attr == "return_direct_ancestors_with_id_to_child")
    res.instances += 1
    def parents_in(e):
        return {x.attr if isinstance(x, ast.Attribute) else x.id for x in ast.walk(e)
                if (isinstance(x, ast.Attribute) and isinstance(x.value, ast.Name) and x.value.id == "self")
                or isinstance(x, ast.Name)} & {"left_parent", "right_parent"}
    loop = next((x for x in ast.walk(ini) if isinstance(x, ast.For) and parents_in(x.iter) == {"left_parent", "right_parent"}
                 and any(isinstance(c.func, ast.Attribute) and c.func.attr == "return_direct_ancestors_with_id_to_child"
                         for c in _calls(x))), None)
    if loop is None:
        # the same collection written as a comprehension: `… parent.return_direct_ancestors_with_id_to_child() for parent
        # in (self.left_parent, self.right_parent) [if parent is not None]`
        for comp in [x for x in ast.walk(ini) if isinstance(x, (ast.GeneratorExp, ast.ListComp, ast.SetComp))]:
            g0 = comp.generators[0]
            if parents_in(g0.iter) == {"left_parent", "right_parent"} and any(
                    isinstance(c, ast.Call) and isinstance(c.func, ast.Attribute)
                    and c.func.attr == "return_direct_ancestors_with_id_to_child" for c in ast.walk(comp.elt)) \
                    and all(isinstance(t, ast.Compare) and len(t.ops) == 1 and isinstance(t.ops[0], ast.IsNot)
                            and isinstance(t.comparators[0], ast.Constant) and t.comparators[0].value is None
                            and norm(t.left) == norm(g0.target) for t in g0.ifs):
                loop = comp
    if loop is None:
        res.findings.append(Finding("R-EDGE", "ExplainableObject.__init__ ancestors",
                                    "the constructor no longer collects the ancestors of both parents", rel, ini.lineno,
                                    "ExplainableObject.__init__"))
    res.floor = 14
    return res


@rule("R-ID")
def r_id(E):
    pm = E.pm
    res = RuleResult("R-ID", "values are deduplicated and matched by .id, so the identifier must be injective over "
                             "simultaneously attached values")
    rel, fn = pm.find_function(OL, "ObjectLinkedToModelingObj.id")
    ret = next((n for n in ast.walk(fn) if isinstance(n, ast.Return) and n.value is not None), None)
    if ret is None:
        raise AnalysisError("ObjectLinkedToModelingObj.id: no return")
    parts = {norm(v.value) for v in ast.walk(ret.value) if isinstance(v, ast.FormattedValue)}
    uses_key = any("key" in p for p in parts)
    # count the id-based dedup / matching sites
    n_sites = 0
    for mod, (r2, tree, src) in pm.modules.items():
        if not any(r2.endswith(x) for x in (EB, MU, ED)):
            continue
        for n in ast.walk(tree):
            if isinstance(n, ast.Compare) and any(isinstance(o, (ast.In, ast.NotIn, ast.Eq, ast.NotEq)) for o in n.ops) \
                    and ".id" in norm(n):
                n_sites += 1
    res.instances = n_sites + 1
    # attach sites that reuse one (container, attr_name) for several values
    rel2, si = pm.find_function(ED, "ExplainableObjectDict.__setitem__")
    call = next((c for c in _calls(si) if isinstance(c.func, ast.Attribute) and c.func.attr == "set_modeling_obj_container"), None)
    shared = False
    if call is not None:
        args = [norm(a) for a in call.args] + [norm(k.value) for k in call.keywords]
        shared = "self.attr_name_in_mod_obj_container" in args and not any("key" in a for a in args)
    res.breakdown = {"id_depends_on": sorted(parts), "id_based_comparison_sites": n_sites,
                     "dict_entries_attached_under_the_dict_name": shared}
    if shared and not uses_key:
        res.findings.append(Finding(
            "R-ID", "ObjectLinkedToModelingObj.id + ExplainableObjectDict.__setitem__",
            "every entry of an ExplainableObjectDict is attached under the dict's own (container, attribute name), and "
            f"id is built from {sorted(parts)} only: all entries of one per-usage-pattern dict share one id, so "
            "ancestor / child lists deduplicated by id keep only the first entry and edits that reach the model through "
            "another entry do not recompute its dependants", rel, fn.lineno, "ObjectLinkedToModelingObj.id"))
    res.samples = [{"id_format": norm(ret.value)[:80], "dict_attach": norm(call)[:100] if call is not None else None}]
    res.floor = 8
    return res


@rule("R-GUARD")
def r_guard(E):
    pm = E.pm
    res = RuleResult("R-GUARD", "self_delete refuses while the object is referenced, before detaching anything; the "
                                "one-system check runs before linking and before computing, and rejects both another "
                                "system and two systems")
    rel, sd = pm.find_function(MO, "ModelingObject.self_delete")
    res.instances += 1
    # every detach runs under conditions that establish "nothing holds this object": `if self.modeling_obj_containers:
    # raise` before it, in any spelling (len(...) > 0, a local alias, an else arm)
    from ..astutil import path_conditions as _pc
    from ..paths import path_formula as _pf, implies as _imp, parse as _parse
    detaches = [c for c in _calls(sd) if isinstance(c.func, ast.Attribute) and c.func.attr == "set_modeling_obj_container"]
    unguarded = False
    for c in detaches:
        st = c
        while st is not None and not isinstance(st, ast.stmt):
            st = getattr(st, "_parent", None)
        # (the statement may sit inside a loop: the loop's own position is what matters)
        top = st
        while getattr(top, "_parent", None) is not None and getattr(top, "_parent", None) is not sd:
            top = top._parent
        if not _imp(_pf(_pc(top, sd), sd), _parse("not self.modeling_obj_containers")):
            unguarded = True
    raises = any(isinstance(x, ast.Raise) for x in ast.walk(sd))
    if unguarded or not raises or not detaches:
        res.findings.append(Finding(
            "R-GUARD", "ModelingObject.self_delete guard",
            "self_delete no longer raises on a non-empty modeling_obj_containers before its first detach: an object "
            "still referenced can be (partly) deleted", rel, sd.lineno, "ModelingObject.self_delete"))
    # … and detaches *every* link it holds: the loop ranges over self.mod_obj_attributes itself (one wrapper per link, an
    # object listed twice has two), not over a de-duplicated view of it (a dict keyed by id, a set)
    from ..astutil import fully_expanded as _fx_g
    res.instances += 1
    for c in detaches:
        loop = c
        while loop is not None and not isinstance(loop, (ast.For, ast.comprehension)):
            loop = getattr(loop, "_parent", None)
        if loop is None:
            continue
        it = _fx_g(loop.iter, sd)
        while isinstance(it, ast.Call) and norm(it.func) in ("list", "tuple") and len(it.args) == 1:
            it = it.args[0]
        dedup = (isinstance(it, ast.Call) and (norm(it.func) in ("set", "frozenset", "dict.fromkeys")
                                              or (isinstance(it.func, ast.Attribute) and it.func.attr in ("values", "keys")
                                                  and isinstance(_fx_g(it.func.value, sd), (ast.DictComp, ast.Dict))))) \
            or isinstance(it, (ast.SetComp, ast.DictComp))
        if dedup:
            res.findings.append(Finding(
                "R-GUARD", "ModelingObject.self_delete detaches a de-duplicated view of its links",
                f"self_delete detaches the links of `{norm(it)[:70]}` — one per linked object — instead of every wrapper of "
                f"self.mod_obj_attributes: an object linked twice (listed twice in a list) keeps a wrapper that still "
                f"names the deleted object as one of its holders", rel, c.lineno, "ModelingObject.self_delete"))
    rel, si = pm.find_function("core/system.py", "System.__init__")
    res.instances += 1
    chk = [c.lineno for c in _calls(si) if _self_method_call(c) == "check_no_object_to_link_is_already_linked_to_another_system"]
    link = [n.lineno for n in ast.walk(si) if isinstance(n, ast.Assign) and norm(n.targets[0]) == "self.usage_patterns"]
    if not chk or not link or min(chk) > min(link):
        res.findings.append(Finding("R-GUARD", "System.__init__ check order",
                                    "System.__init__ links its usage patterns before checking that none of their "
                                    "objects already belongs to another system", rel, si.lineno, "System.__init__"))
    rel, cc = pm.find_function("core/system.py", "System.compute_calculated_attributes")
    res.instances += 1
    chk = [c.lineno for c in _calls(cc) if _self_method_call(c) == "check_no_object_to_link_is_already_linked_to_another_system"]
    sup = [c.lineno for c in _calls(cc) if "super().compute_calculated_attributes" in norm(c.func)]
    if not chk or not sup or min(chk) > min(sup):
        res.findings.append(Finding("R-GUARD", "System.compute_calculated_attributes check order",
                                    "the one-system check no longer precedes the system's computation", rel, cc.lineno,
                                    "System.compute_calculated_attributes"))
    rel, ck = pm.find_function("core/system.py", "System.check_no_object_to_link_is_already_linked_to_another_system")
    res.instances += 1
    raises = [n for n in ast.walk(ck) if isinstance(n, ast.Raise)]
    raising_ifs = [s for s in ast.walk(ck) if isinstance(s, ast.If) and any(isinstance(x, ast.Raise) for x in s.body)]
    from ..astutil import fully_expanded as _fxg
    other_system = any(any(isinstance(c, ast.Compare) and "self.id" in norm(_fxg(c, ck))
                           and ".id" in norm(_fxg(c, ck)).replace("self.id", "", 1)
                           for c in ast.walk(s.test)) for s in raising_ifs)
    two_systems = any(any(isinstance(c, ast.Compare) and "len(" in norm(c) and (
        (isinstance(c.ops[0], ast.Gt) and norm(c.comparators[0]) == "1") or
        (isinstance(c.ops[0], ast.GtE) and norm(c.comparators[0]) == "2") or
        (isinstance(c.ops[0], ast.NotEq) and norm(c.comparators[0]) == "1")) for c in ast.walk(s.test)) for s in raising_ifs)
    if len(raises) < 2 or not other_system or not two_systems:
        res.findings.append(Finding("R-GUARD", "System.check_no_object… cases",
                                    "the one-system check must raise both for an object linked to another system and "
                                    "for an object linked to two systems", rel, ck.lineno, ck.name))
    # the one-system check is on the edit path: reachable (by name-resolved calls) from ModelingUpdate.__init__
    res.instances += 1
    defs = {}
    for mod, (r2, tree, src) in pm.modules.items():
        for n in ast.walk(tree):
            if isinstance(n, ast.FunctionDef):
                defs.setdefault(n.name, []).append(n)
    rel5, start = TxnAnalysis(pm).rel, TxnAnalysis(pm).methods["__init__"]
    seen, todo = set(), [start]
    while todo:
        f = todo.pop()
        if id(f) in seen:
            continue
        seen.add(id(f))
        for c in ast.walk(f):
            nm = None
            if isinstance(c, ast.Call):
                nm = c.func.attr if isinstance(c.func, ast.Attribute) else (c.func.id if isinstance(c.func, ast.Name) else None)
            elif isinstance(c, ast.Attribute):
                nm = c.attr          # properties
            if nm and nm in defs and nm not in ("__init__", "to_json", "explain", "plot"):
                todo += defs[nm]
    on_path = any(id(f) in seen for f in defs.get("check_no_object_to_link_is_already_linked_to_another_system", []))
    if not on_path:
        res.findings.append(Finding(
            "R-GUARD", "one-system check not on the edit path",
            "check_no_object_to_link_is_already_linked_to_another_system is only called when a System is built or "
            "explicitly recomputed; nothing reachable from ModelingUpdate calls it, so a link edit "
            "(`journey_of_A.uj_steps.append(step_of_B)`, `system_A.usage_patterns.append(pattern_of_B)`) puts objects in "
            "two systems", rel5, start.lineno, "ModelingUpdate.__init__"))
    res.samples = [{"self_delete_detaches_guarded": not unguarded, "detach_sites": len(detaches),
                    "functions_reachable_from_ModelingUpdate": len(seen)}]
    res.floor = 5
    return res


REVERSE_NAMES = {"jobs", "usage_patterns", "usage_journeys", "usage_journey_steps", "networks", "servers", "storages",
                 "server", "installed_services", "systems", "modeling_obj_containers", "usage_journey", "devices",
                 "network", "country", "uj_steps", "service", "storage"}


@rule("R-REV")
def r_rev(E):
    pm = E.pm
    res = RuleResult("R-REV", "reverse look-ups are computed from modeling_obj_containers and forward links on every "
                              "call; no model class stores one in an instance attribute")
    for cn, ci in sorted(pm.classes.items()):
        if not pm.is_model(cn):
            continue
        ia = pm.init_attrs(cn)
        for fn in pm.own_methods(cn):
            if not is_property(fn) or fn.name not in REVERSE_NAMES:
                continue
            res.instances += 1
            where = f"{cn}.{fn.name}"
            bad = None
            for n in ast.walk(fn):
                if isinstance(n, ast.Attribute) and isinstance(n.value, ast.Name) and n.value.id == "self":
                    a = n.attr
                    o, m = pm.find_method(cn, a)
                    if m is not None:
                        continue      # property or method: derived
                    info = ia.get(a)
                    if info is not None and info.kind == "link":
                        continue      # forward link
                    if a in ("contextual_modeling_obj_containers", "name", "id"):
                        continue
                    subs = [pm.init_attrs(k).get(a) for k in pm.subclasses(cn)]
                    if any(s is not None and s.kind == "link" for s in subs) or any(
                            pm.find_method(k, a)[1] is not None for k in pm.subclasses(cn)):
                        continue
                    bad = a
                if isinstance(n, (ast.Assign, ast.AugAssign)):
                    for t in (n.targets if isinstance(n, ast.Assign) else [n.target]):
                        if isinstance(t, ast.Attribute):
                            bad = f"store {norm(t)}"
                if isinstance(n, ast.Call) and isinstance(n.func, ast.Name) and n.func.id in ("setattr",):
                    bad = "setattr"
            if bad:
                res.findings.append(Finding(
                    "R-REV", f"{where} uses {bad}",
                    f"{where} reads or writes stored state ({bad}) instead of deriving the reverse look-up from the "
                    f"current links: no mutator maintains such a cache", ci.path, fn.lineno, where))
            elif len(res.samples) < 4:
                res.samples.append({"property": where, "verdict": "derived from containers / forward links / other "
                                                                   "derived properties"})
    rel, moc = pm.find_function(MO, "ModelingObject.modeling_obj_containers")
    res.instances += 1
    reads_registry = any(isinstance(n, ast.Attribute) and n.attr == "contextual_modeling_obj_containers" for n in ast.walk(moc))
    filtered = any(isinstance(n, ast.Compare) and isinstance(n.ops[0], ast.IsNot) and norm(n.comparators[0]) == "None"
                   and norm(n.left).endswith(".modeling_obj_container") for n in ast.walk(moc))
    if not reads_registry or not filtered:
        res.findings.append(Finding(
            "R-REV", "ModelingObject.modeling_obj_containers filter",
            "modeling_obj_containers must be the holders of the *attached* link wrappers (filter on "
            "modeling_obj_container is not None): detached wrappers stay in the list forever", rel, moc.lineno,
            "ModelingObject.modeling_obj_containers"))
    res.floor = 25
    return res


VIEW_FUNCS = {"to_json", "explain", "__str__", "__repr__", "plot", "compute_explain_nested_tuples", "print_tuple_element",
              "pretty_print_calculation", "system_to_json", "recursively_write_json_dict", "calculus_graph_to_file",
              "build_calculus_graph", "object_relationship_graph_to_file", "build_object_relationships_graph",
              "plot_footprints_by_category_and_object", "plot_emission_diffs", "key_value_to_str",
              "plot_baseline_and_simulation_dfs"}
ACCUMULATORS = {"output_dict", "depth_lists", "descendants_list", "ancestors_list"}   # result containers passed down
SYSTEM_VIEWS = ["fabrication_footprints", "energy_footprints", "total_fabrication_footprints", "total_energy_footprints",
                "fabrication_footprint_sum_over_period", "energy_footprint_sum_over_period",
                "total_fabrication_footprint_sum_over_period", "total_energy_footprint_sum_over_period"]


@rule("R-PUREVIEW")
def r_pureview(E):
    pm = E.pm
    res = RuleResult("R-PUREVIEW", "reading, explaining, plotting or exporting results performs no store into a model "
                                   "object or an operand and calls no value-changing in-place method")
    # value-changing in-place methods of the value classes: those that store into self.value (unit conversions keep
    # the physical value); whether copy(x) shares x.value is read from ExplainableObject.__copy__
    inplace_methods = {"ceil", "round"}
    for cn, ci in pm.classes.items():
        if not ci.path.endswith(("explainable_objects.py", "explainable_object_base_class.py")):
            continue
        for m in [x for x in ci.node.body if isinstance(x, ast.FunctionDef) and not x.name.startswith("__")]:
            for a in ast.walk(m):
                if isinstance(a, (ast.Assign, ast.AugAssign)):
                    for t in (a.targets if isinstance(a, ast.Assign) else [a.target]):
                        b = t
                        while isinstance(b, ast.Subscript):
                            b = b.value
                        if norm(b) == "self.value" and not (isinstance(a, ast.Assign) and ".to(" in norm(a.value)):
                            inplace_methods.add(m.name)
    _, cp = pm.find_method("ExplainableObject", "__copy__")
    shallow_copy = cp is not None and any(
        isinstance(c, ast.Call) and any(norm(v) == "self.value" for v in list(c.args) + [k.value for k in c.keywords])
        for c in ast.walk(cp))
    res.samples.append({"in_place_methods": sorted(inplace_methods), "copy_shares_value": shallow_copy})
    # the view functions and the hooks they call on self (a template method's hooks — value_to_json — are part of the
    # view, in every class of the hierarchy that overrides them)
    hooks = {}
    for cn, ci in pm.classes.items():
        for m in [x for x in ci.node.body if isinstance(x, ast.FunctionDef) and x.name in VIEW_FUNCS]:
            for sub in [cn] + pm.subclasses(cn):
                finder = pm.helper_finder(sub)
                todo, seen_h = [m], {id(m)}
                while todo:
                    g = todo.pop()
                    for c in ast.walk(g):
                        if isinstance(c, ast.Call) and isinstance(c.func, ast.Attribute) and norm(c.func.value) == "self":
                            h = finder(c.func.attr)
                            if h is not None and id(h) not in seen_h and h.name not in VIEW_FUNCS and h.name not in inplace_methods \
                                    and not h.name.startswith(("update_", "compute_", "set_", "__")):
                                seen_h.add(id(h))
                                hooks[id(h)] = h
                                todo.append(h)
    for mod, (rel, tree, src) in sorted(pm.modules.items()):
        for fn in [n for n in ast.walk(tree) if isinstance(n, ast.FunctionDef) and (n.name in VIEW_FUNCS or id(n) in hooks)]:
            q, _ = _enclosing(fn.body[0]) if fn.body else (fn.name, None)
            res.instances += 1
            params = {a.arg for a in fn.args.args}
            rebound = {t.id for n in ast.walk(fn) if isinstance(n, ast.Assign) for t in n.targets
                       if isinstance(t, ast.Name)}
            for n in ast.walk(fn):
                if isinstance(n, (ast.Assign, ast.AugAssign)):
                    for t in (n.targets if isinstance(n, ast.Assign) else [n.target]):
                        b = t
                        while isinstance(b, (ast.Attribute, ast.Subscript)):
                            b = b.value
                        if isinstance(n, ast.Assign) and norm(n.value).startswith(norm(t) + ".pint.to("):
                            continue      # in-place unit conversion: the physical value is unchanged
                        if isinstance(t, (ast.Attribute, ast.Subscript)) and isinstance(b, ast.Name) \
                                and b.id in params and b.id not in rebound and b.id not in ACCUMULATORS:
                            res.findings.append(Finding(
                                "R-PUREVIEW", f"{q} :: {norm(n)[:90]}",
                                f"{q} stores into its argument {b.id} ({norm(n)[:60]}): a read-only view alters the model",
                                rel, n.lineno, q))
                if isinstance(n, ast.Call) and isinstance(n.func, ast.Attribute) and n.func.attr in inplace_methods:
                    from ..astutil import fully_expanded
                    recv, via = fully_expanded(n.func.value, fn), ""
                    # a shallow copy (copy(x) -> ExplainableObject.__copy__ hands x.value itself to the new object) and the
                    # methods that return their receiver still designate the model's own frame / quantity
                    while isinstance(recv, ast.Call):
                        if norm(recv.func) in ("copy", "copy.copy") and recv.args and shallow_copy:
                            recv, via = recv.args[0], " (through a shallow copy that shares its value)"
                        elif isinstance(recv.func, ast.Attribute) and recv.func.attr in ("set_label", "to"):
                            recv = recv.func.value
                        else:
                            break
                    if isinstance(recv, (ast.Attribute, ast.Name)) and "self" in norm(recv) \
                            and not norm(recv).startswith(("np", "math")):
                        res.findings.append(Finding(
                            "R-PUREVIEW", f"{q} :: {norm(n)[:90]}",
                            f"{q} calls the in-place .{n.func.attr}() on model state{via}", rel, n.lineno, q))
    # the System footprint views, through the interpreter
    for v in SYSTEM_VIEWS:
        res.instances += 1
        cx = Cx("System", v)
        try:
            out, cx = E.I.run_method("System", v, cx)
        except AnalysisError as e:
            res.undecided.append(str(e))
            continue
        res.undecided += [f"System.{v}: {u}" for u in cx.unknown]
        for a, sites in cx.writes.items():
            res.findings.append(Finding("R-PUREVIEW", f"System.{v} writes self.{a}",
                                        f"the view System.{v} assigns self.{a}", sites[0].path, sites[0].node.lineno,
                                        sites[0].func))
        for node, where, text in cx.foreign_writes:
            res.findings.append(Finding("R-PUREVIEW", f"System.{v} foreign store :: {text[:80]}",
                                        f"the view System.{v} stores into a model object: {text[:80]}", where[0],
                                        node.lineno, where[1]))
        for node, where, name, b in cx.inplace:
            if not b.fresh or b.shares:
                res.findings.append(Finding("R-PUREVIEW", f"System.{v} :: {norm(node)[:80]}",
                                            f"the view System.{v} rounds a model value in place", where[0], node.lineno,
                                            where[1]))
        for node, where, b in cx.frame_stores:
            res.findings.append(Finding("R-PUREVIEW", f"System.{v} frame store :: {norm(node)[:80]}",
                                        f"the view System.{v} stores into a frame shared with the model", where[0],
                                        node.lineno, where[1]))
    res.samples.append({"system_views_interpreted": SYSTEM_VIEWS})
    res.floor = 30
    return res


@rule("R-OBJID")
def r_objid(E):
    pm = E.pm
    res = RuleResult("R-OBJID", "model objects are compared and hashed by id, so the id must be unique per object (drawn "
                                "from uuid4), not a function of the name")
    # model objects: the identifier must be unique per object, not a function of the name
    rel3, mi = pm.find_function(MO, "ModelingObject.__init__")
    res.instances += 1
    ida = next((n for n in ast.walk(mi) if isinstance(n, ast.Assign) and norm(n.targets[0]) == "self.id"), None)
    if ida is None:
        res.undecided.append("ModelingObject.__init__: id assignment not found")
    else:
        uniq = any(isinstance(c, ast.Call) and norm(c.func) in ("uuid.uuid4", "uuid4", "uuid.uuid1", "uuid1") for c in ast.walk(ida.value))
        if not uniq:
            res.findings.append(Finding(
                "R-OBJID", "ModelingObject.id not unique per object",
                f"ModelingObject ids are built as `{norm(ida.value)[:80]}`, a function of the name only: two distinct objects "
                f"with the same name (Network.wifi_network() twice, Storage.ssd() twice) compare equal and hash alike, so "
                f"sets and membership tests merge them and one silently disappears from the system", rel3, ida.lineno,
                "ModelingObject.__init__"))
    # equality and hash are both id-based (they must agree)
    rel4, eq = pm.find_function(MO, "ModelingObject.__eq__")
    rel4, hs = pm.find_function(MO, "ModelingObject.__hash__")
    res.instances += 1
    if "self.id" not in norm(eq) or "self.id" not in norm(hs):
        res.findings.append(Finding("R-OBJID", "eq/hash not id-based", "ModelingObject.__eq__ and __hash__ no longer both use "
                                    "the id", rel4, eq.lineno, "ModelingObject.__eq__"))
    res.floor = 2
    return res
