"""Further structural clauses: R-CHAIN (C01/C08), R-SIMDATE (C06), R-DELAY (C03), R-CUMUL (C04), R-JSON-ID (C13),
R-VAL-AUTH (C14). Each checks an ordering / guard shape that is a necessary condition of a clause of the property;
a shape the rule does not recognise is `undecided`, never a violation."""
import ast

from . import rule
from ..frontend import AnalysisError, norm, is_property
from ..report import Finding, RuleResult
from ..astutil import nodes_through_helpers

EB = "abstract_modeling_classes/explainable_object_base_class.py"
MO = "abstract_modeling_classes/modeling_object.py"
MU = "abstract_modeling_classes/modeling_update.py"
JOB = "core/usage/job.py"
ST = "core/hardware/storage.py"
EO = "abstract_modeling_classes/explainable_objects.py"
J2S = "api_utils/json_to_system.py"


def _calls(node):
    out = [n for n in ast.walk(node) if isinstance(n, ast.Call)]
    out.sort(key=lambda c: (c.lineno, c.col_offset))
    return out


def _enclosing_ifs(node, stop):
    out = []
    x = node
    while x is not None and x is not stop:
        par = getattr(x, "_parent", None)
        if isinstance(par, ast.If):
            out.append((par, x in par.body or any(x is s for s in par.body)))
        x = par
    return out


@rule("R-CHAIN")
def r_chain(E):
    pm = E.pm
    res = RuleResult("R-CHAIN", "the three chain builders keep their ordering guards: a dependent value is appended to the "
                                "update order only once all its ancestors among the descendants are in it (and is then "
                                "marked); duplicate occurrences keep the *last* one; the object chain is a breadth-first "
                                "walk that appends every dependant of every visited object; the reordered chain follows "
                                "CANONICAL_COMPUTATION_ORDER")
    # 1. attr_updates_chain
    rel, fn = pm.find_function(EB, "ExplainableObject.attr_updates_chain")
    # the chain is the local that the function hands back (directly or through optimize_attr_updates_chain(...))
    from ..astutil import names_behind
    returned = set()
    for r in ast.walk(fn):
        if isinstance(r, ast.Return) and r.value is not None:
            returned |= names_behind(r.value, fn)
    apps = [c for c in _calls(fn) if isinstance(c.func, ast.Attribute) and c.func.attr == "append"
            and norm(c.func.value) in returned]
    if not apps:
        res.undecided.append("attr_updates_chain: no append to the chain found")
    from ..astutil import path_conditions, positive_atoms
    for a in apps:
        res.instances += 1
        stmt = a
        while not isinstance(getattr(stmt, "_parent", None), (ast.For, ast.While, ast.If, ast.FunctionDef)):
            stmt = stmt._parent
        # the "added" flag dict: the one set to True for the appended child in the same block
        marks = []
        up = stmt
        while not marks and up is not None and up is not fn and not isinstance(up, (ast.For, ast.While)):
            block_parent = getattr(up, "_parent", None)
            sibs = [x for f in ("body", "orelse") for x in (getattr(block_parent, f, None) or [])]
            if any(x is up for x in sibs):
                marks = [n for n in sibs if isinstance(n, ast.Assign) and isinstance(n.targets[0], ast.Subscript)
                         and norm(n.value) == "True" and n.lineno >= up.lineno]
            up = block_parent
        if not marks:
            res.findings.append(Finding("R-CHAIN", "attr_updates_chain mark", "a value appended to the chain is not marked "
                                        "as added: it is appended again on the next sweep", rel, a.lineno,
                                        "ExplainableObject.attr_updates_chain"))
            continue
        flag = norm(marks[0].targets[0].value)
        true, false = positive_atoms(path_conditions(stmt, fn))
        # (1) all(<flag>[ancestor.id] for ancestor in <ancestors among descendants>) holds
        all_ok, shape_ok = False, True
        for t in true:
            for c in ast.walk(t):
                if isinstance(c, ast.Call) and isinstance(c.func, ast.Name) and c.func.id == "all" and c.args:
                    comp = c.args[0]
                    if isinstance(comp, (ast.ListComp, ast.GeneratorExp)) and norm(comp.elt).startswith(flag + "["):
                        all_ok = True
                        src = comp.generators[0].iter
                        defs = {norm(n.targets[0]): n.value for n in ast.walk(fn) if isinstance(n, ast.Assign)}
                        d = defs.get(norm(src), src)
                        if isinstance(src, ast.Name):
                            from ..astutil import list_builder
                            d = list_builder(fn, src.id) or d
                        if "direct_ancestors_with_id" not in norm(d):
                            shape_ok = False
        if not all_ok:
            res.findings.append(Finding(
                "R-CHAIN", "attr_updates_chain append guard",
                "attr_updates_chain appends a dependent value without first requiring that all its ancestors (among the "
                "descendants of the edited value) are already in the chain: a value can be recomputed before one of its "
                "inputs", rel, a.lineno, "ExplainableObject.attr_updates_chain"))
            continue
        if not shape_ok:
            res.undecided.append("attr_updates_chain: guard does not range over the child's direct ancestors")
        # (2) the child is not in the chain yet
        not_added = any(norm(t).startswith(flag + "[") for t in false)
        if not not_added:
            res.findings.append(Finding(
                "R-CHAIN", "attr_updates_chain added-once guard",
                "attr_updates_chain can append a value that is already in the chain (the not-yet-added test is gone)",
                rel, a.lineno, "ExplainableObject.attr_updates_chain"))
    # 2. keep the last occurrence
    for suffix, q, seq in ((EB, "optimize_attr_updates_chain", "attr_to_update_ids"),
                           (MO, "optimize_mod_objs_computation_chain", "mod_objs_computation_chain")):
        rel, fn = pm.find_function(suffix, q)
        res.instances += 1
        ok = None
        for n in ast.walk(fn):
            if isinstance(n, ast.Compare) and isinstance(n.ops[0], ast.NotIn) and isinstance(n.comparators[0], ast.Subscript) \
                    and isinstance(n.comparators[0].slice, ast.Slice):
                sl = n.comparators[0].slice
                lower, upper = (norm(sl.lower) if sl.lower else None), (norm(sl.upper) if sl.upper else None)
                if lower is not None and lower.endswith("+ 1") and upper is None:
                    ok = True
                elif upper is not None and lower is None:
                    ok = False      # `x not in seq[:index]` keeps the FIRST occurrence
        if ok is None:
            # seen-set idiom: `if x not in seen: seen.add(x); out.append(..)` keeps the FIRST occurrence when the chain
            # is walked forwards, the last one when it is walked through reversed(...) and reversed back
            # (possibly in helpers, also of another module, one calling the other with the chain reversed)
            from ..astutil import nodes_through_helpers as _nth_ss
            _ffh, _ffp = pm.function_finder(rel), pm.package_function_finder()
            _ss_nodes = list(_nth_ss(fn, None, depth=3, find_function=lambda nm_: _ffh(nm_) or _ffp(nm_)))
            for loop in [n for n in _ss_nodes if isinstance(n, ast.For)]:
                grows = [c for c in _calls(loop) if isinstance(c.func, ast.Attribute) and c.func.attr in ("add", "append")]
                tests = [n for n in ast.walk(loop) if isinstance(n, ast.Compare) and isinstance(n.ops[0], ast.NotIn)]
                seen_names = {norm(c.func.value) for c in grows}
                if tests and any(norm(t.comparators[0]) in seen_names for t in tests):
                    backwards = isinstance(loop.iter, ast.Call) and norm(loop.iter.func) == "reversed" or "[::-1]" in norm(loop.iter)
                    ok = bool(backwards)
        if ok is None:
            # index-table idiom: `last = {key: i for i, key in enumerate(keys)}` (later entries overwrite: the LAST index of
            # each key) and then the elements whose own index is the table's (`last[key] == i`) are kept, in order
            for n in ast.walk(fn):
                if isinstance(n, ast.DictComp) and len(n.generators) == 1 and isinstance(n.generators[0].iter, ast.Call) \
                        and norm(n.generators[0].iter.func) == "enumerate" and isinstance(n.generators[0].target, ast.Tuple) \
                        and len(n.generators[0].target.elts) == 2 and not n.generators[0].ifs:
                    idx = norm(n.generators[0].target.elts[0])
                    par = getattr(n, "_parent", None)
                    tname = par.targets[0].id if isinstance(par, ast.Assign) and isinstance(par.targets[0], ast.Name) else None
                    if norm(n.value) == idx and tname:
                        cmp_ok = any(isinstance(c, ast.Compare) and len(c.ops) == 1 and isinstance(c.ops[0], ast.Eq)
                                     and any(isinstance(x, ast.Subscript) and norm(x.value) == tname for x in (c.left, c.comparators[0]))
                                     for c in ast.walk(fn))
                        if cmp_ok:
                            ok = True
        if ok is None:
            # the same index table filled by a loop, possibly in a helper: `for i, key in enumerate(keys): last[key] = i`
            # (a later entry overwrites: LAST index) — `last.setdefault(key, i)` / `if key not in last: last[key] = i` keep
            # the FIRST; the elements whose own index is the table's are kept
            from ..astutil import nodes_through_helpers as _nth_it
            _fh_it, _fp_it = pm.function_finder(rel), pm.package_function_finder()
            _it_nodes = list(_nth_it(fn, None, depth=2, find_function=lambda nm_: _fh_it(nm_) or _fp_it(nm_)))
            for lp in [n for n in _it_nodes if isinstance(n, ast.For) and isinstance(n.iter, ast.Call)
                       and norm(n.iter.func) == "enumerate" and isinstance(n.target, ast.Tuple) and len(n.target.elts) == 2
                       and all(isinstance(e_, ast.Name) for e_ in n.target.elts) and len(n.body) == 1]:
                iv, kv = lp.target.elts[0].id, lp.target.elts[1].id
                b0 = lp.body[0]
                verdict_ = None
                if isinstance(b0, ast.Assign) and len(b0.targets) == 1 and isinstance(b0.targets[0], ast.Subscript) \
                        and norm(b0.targets[0].slice) == kv and norm(b0.value) == iv:
                    verdict_ = True
                elif isinstance(b0, ast.Expr) and isinstance(b0.value, ast.Call) and isinstance(b0.value.func, ast.Attribute) \
                        and b0.value.func.attr == "setdefault" and [norm(a_) for a_ in b0.value.args] == [kv, iv]:
                    verdict_ = False
                elif isinstance(b0, ast.If) and not b0.orelse and isinstance(b0.test, ast.Compare) and isinstance(b0.test.ops[0], ast.NotIn) \
                        and norm(b0.test.left) == kv and len(b0.body) == 1 and isinstance(b0.body[0], ast.Assign) \
                        and isinstance(b0.body[0].targets[0], ast.Subscript) and norm(b0.body[0].targets[0].slice) == kv:
                    verdict_ = False
                if verdict_ is None:
                    continue
                selects = any(isinstance(c, ast.Compare) and len(c.ops) == 1 and isinstance(c.ops[0], ast.Eq)
                              and any(isinstance(x, ast.Subscript) for x in (c.left, c.comparators[0]))
                              for c in ast.walk(fn))
                if selects:
                    ok = verdict_
        if ok is None:
            # dict idiom: `{x.id: x for x in chain}.values()` / dict.fromkeys(chain) keep each key at the position of its
            # FIRST insertion (the object kept may be the last one, its place in the order is the first one's) —
            # unless the chain is walked backwards and the result reversed again
            for n in ast.walk(fn):
                if isinstance(n, ast.DictComp) or (isinstance(n, ast.Call) and norm(n.func) in ("dict.fromkeys", "OrderedDict.fromkeys")):
                    src = n.generators[0].iter if isinstance(n, ast.DictComp) else (n.args[0] if n.args else None)
                    backwards = src is not None and (
                        (isinstance(src, ast.Call) and norm(src.func) == "reversed") or "[::-1]" in norm(src))
                    ok = bool(backwards)
        if ok is None:
            # insertion-ordered dict idiom, possibly in a helper of the module called with a constant mode:
            #     for x in chain: [D.pop(key(x), None)]; D.setdefault(key(x), x)  /  D[key(x)] = x;   … list(D.values())
            # popping the key before inserting moves it to the end — the position of the LAST occurrence; without the pop
            # the key stays where it was first inserted
            from ..astutil import nodes_through_helpers as _nth_c
            _ff_here, _ff_pkg = pm.function_finder(rel), pm.package_function_finder()
            nodes_c = list(_nth_c(fn, None, depth=2, find_function=lambda nm_: _ff_here(nm_) or _ff_pkg(nm_)))

            def const_truth(t):
                if isinstance(t, ast.Compare) and len(t.ops) == 1 and isinstance(t.left, ast.Constant) \
                        and isinstance(t.comparators[0], ast.Constant):
                    if isinstance(t.ops[0], ast.Eq):
                        return t.left.value == t.comparators[0].value
                    if isinstance(t.ops[0], ast.NotEq):
                        return t.left.value != t.comparators[0].value
                return None
            for loop in [n for n in nodes_c if isinstance(n, ast.For) and isinstance(n.target, ast.Name)]:
                lv = loop.target.id
                inserts, pops, undecidable = [], [], False
                # the key under which an element is filed: the element, one of its attributes, a key function applied to
                # it — or a local of the loop body bound to one of these
                def _is_key_expr(e_):
                    return (isinstance(e_, ast.Name) and e_.id == lv) or (
                        isinstance(e_, ast.Attribute) and isinstance(e_.value, ast.Name) and e_.value.id == lv) or (
                        isinstance(e_, ast.Call) and len(e_.args) == 1 and not e_.keywords
                        and isinstance(e_.args[0], ast.Name) and e_.args[0].id == lv)
                keys_ = {lv, f"{lv}.id"} | {st_.targets[0].id for st_ in loop.body if isinstance(st_, ast.Assign)
                                            and len(st_.targets) == 1 and isinstance(st_.targets[0], ast.Name)
                                            and _is_key_expr(st_.value)}

                def scan(stmts, live):
                    nonlocal undecidable
                    for st in stmts:
                        if isinstance(st, ast.If):
                            tv = const_truth(st.test)
                            if tv is None:
                                if any(isinstance(c, ast.Call) and isinstance(c.func, ast.Attribute) and c.func.attr in ("pop", "setdefault")
                                       for c in ast.walk(st)):
                                    undecidable = True
                                continue
                            scan(st.body if tv else st.orelse, live)
                            continue
                        for c in ast.walk(st):
                            if isinstance(c, ast.Call) and isinstance(c.func, ast.Attribute) and c.args \
                                    and (norm(c.args[0]) in keys_ or _is_key_expr(c.args[0])):
                                if c.func.attr == "pop":
                                    pops.append((norm(c.func.value), len(inserts)))
                                elif c.func.attr == "setdefault":
                                    inserts.append(norm(c.func.value))
                        if isinstance(st, ast.Assign) and isinstance(st.targets[0], ast.Subscript) \
                                and (norm(st.targets[0].slice) in keys_ or _is_key_expr(st.targets[0].slice)) \
                                and norm(st.value) == lv:
                            inserts.append(norm(st.targets[0].value))
                scan(loop.body, True)
                if inserts and len(set(inserts)) == 1 and not undecidable:
                    d_ = inserts[0]
                    backwards = (isinstance(loop.iter, ast.Call) and norm(loop.iter.func) == "reversed") or "[::-1]" in norm(loop.iter)
                    popped_first = any(pd == d_ and at == 0 for pd, at in pops)
                    ok = bool(popped_first) or bool(backwards)
                    break
        if ok is None:
            res.undecided.append(f"{q}: de-duplication test not recognised")
        elif not ok:
            res.findings.append(Finding(
                "R-CHAIN", f"{q} keeps first occurrence",
                f"{q} keeps the first occurrence of a duplicate instead of the last: an object (value) reached again "
                f"through a later predecessor is recomputed before that predecessor", rel, fn.lineno, q))
    # 3. breadth-first object chain
    rel, fn = pm.find_function(MO, "ModelingObject.mod_objs_computation_chain")
    res.instances += 1
    w = next((n for n in ast.walk(fn) if isinstance(n, ast.While)), None)
    if w is None:
        res.undecided.append("mod_objs_computation_chain: no work-list loop")
    else:
        t = norm(w)
        returned = {norm(r.value) for r in ast.walk(fn) if isinstance(r, ast.Return) and r.value is not None}
        appended = any(isinstance(c.func, ast.Attribute) and c.func.attr == "append" and
                       norm(c.func.value) in returned for c in _calls(w))
        expands = any(isinstance(n, ast.For) and "modeling_objects_whose_attributes_depend_directly_on_me" in norm(n.iter)
                      for n in ast.walk(w))
        if not appended or not expands:
            res.findings.append(Finding(
                "R-CHAIN", "mod_objs_computation_chain walk",
                "the object chain no longer appends every visited object and expands it into its own dependants: objects "
                "further down the dependency graph are not recomputed", rel, w.lineno, "ModelingObject.mod_objs_computation_chain"))
    # 4. reordering follows the canonical order
    rel, fn = pm.find_function(MO, "optimize_mod_objs_computation_chain")
    from ..astutil import desugar_comprehensions
    fn = desugar_comprehensions(fn)
    res.instances += 1
    outer = next((n for n in ast.walk(fn) if isinstance(n, ast.For) and norm(n.iter) == "CANONICAL_COMPUTATION_ORDER"), None)
    sorted_by_slot = False
    if outer is None:
        # the same order obtained by sorting: every object paired with its position(s) in CANONICAL_COMPUTATION_ORDER
        # (enumerate + issubclass, possibly in helpers of the module) and its rank in the chain, pairs sorted ascending
        from ..astutil import nodes_through_helpers as _nthc
        ff_ = pm.function_finder(rel)
        nodes = list(_nthc(fn, None, depth=3, find_function=ff_))
        # a rank helper bound in advance — partial(rank, canonical_computation_order=CANONICAL_COMPUTATION_ORDER) — is read
        # with that binding
        from ..astutil import substitute_stmt as _sst, clone as _cln
        for pc in [n for n in list(nodes) if isinstance(n, ast.Call) and norm(n.func) in ("partial", "functools.partial")
                   and n.args and isinstance(n.args[0], ast.Name)]:
            h_ = ff_(pc.args[0].id)
            if h_ is not None:
                m_ = {k.arg: k.value for k in pc.keywords if k.arg}
                m_.update({a.arg: v for a, v in zip(h_.args.args, pc.args[1:])})
                hv_ = _cln(h_)
                hv_.body = [_sst(b, m_) for b in hv_.body]
                nodes += list(ast.walk(hv_))
        positions = any(isinstance(n, (ast.comprehension, ast.For)) and isinstance(n.iter, ast.Call)
                        and norm(n.iter.func) == "enumerate" and n.iter.args
                        and norm(n.iter.args[0]) == "CANONICAL_COMPUTATION_ORDER" for n in nodes)
        sub = any(isinstance(n, ast.Call) and norm(n.func) == "issubclass" for n in nodes)
        srt = [n for n in nodes if isinstance(n, ast.Call) and norm(n.func) == "sorted"]
        # ascending, by the position alone or by (position, rank) pairs; a key, if any, is the position
        plain = srt and all(not any(k.arg == "reverse" for k in c.keywords) for c in srt)
        sorted_by_slot = bool(positions and sub and plain)
    if outer is None and sorted_by_slot:
        res.samples.append({"optimize_mod_objs_computation_chain": "ordered by sorting (canonical position, rank) pairs"})
    elif outer is None:
        res.findings.append(Finding("R-CHAIN", "optimize_mod_objs_computation_chain order",
                                    "the recomputation chain is no longer re-ordered slot by slot along "
                                    "CANONICAL_COMPUTATION_ORDER", rel, fn.lineno, fn.name))
    else:
        inner = next((n for n in ast.walk(outer) if isinstance(n, ast.For) and n is not outer), None)
        test = next((n for n in ast.walk(outer) if isinstance(n, ast.If)), None)
        if inner is None or test is None or "issubclass" not in norm(test.test):
            res.undecided.append("optimize_mod_objs_computation_chain: slot scan not recognised")
    # system appended last, looked up on *every* object of the chain until one has a system (objects that are being
    # linked in do not know their system yet: asking one fixed element is not enough)
    res.instances += 1
    from ..astutil import fully_expanded
    sysapp = []
    for c in _calls(fn):
        if isinstance(c.func, ast.Attribute) and c.func.attr == "append" and c.args:
            a = fully_expanded(c.args[0], fn)
            if isinstance(a, ast.Subscript):
                # `<x>.systems[0]`, possibly through `(<x>.systems if … else [])[0]`
                alts = [a.value.body, a.value.orelse] if isinstance(a.value, ast.IfExp) else [a.value]
                for v in alts:
                    if isinstance(v, ast.Attribute) and v.attr == "systems":
                        sysapp.append((c, v.value))
                    # `next((o.systems for o in chain if o.systems), [])[0]`: the systems of the first object that has some
                    if isinstance(v, ast.Call) and norm(v.func) == "next" and v.args and isinstance(v.args[0], ast.GeneratorExp) \
                            and isinstance(v.args[0].elt, ast.Attribute) and v.args[0].elt.attr == "systems":
                        sysapp.append((c, v))
    if not sysapp:
        res.findings.append(Finding("R-CHAIN", "optimize_mod_objs_computation_chain system",
                                    "the system is no longer appended at the end of the recomputation chain: its total "
                                    "footprint is not refreshed after an edit", rel, fn.lineno, fn.name))
    else:
        c, owner = sysapp[0]
        if outer is not None and c.lineno < outer.lineno:
            res.findings.append(Finding("R-CHAIN", "optimize_mod_objs_computation_chain system first",
                                        "the system is appended before the other objects", rel, c.lineno, fn.name))
        binder = None
        if isinstance(owner, (ast.Name, ast.Call)):
            # `first = next((o for o in chain if o.systems), None)`: the generator ranges over every object
            ow = fully_expanded(owner, fn) if isinstance(owner, ast.Name) else owner
            if isinstance(ow, ast.Call) and norm(ow.func) == "next" and ow.args and isinstance(ow.args[0], ast.GeneratorExp) \
                    and any("systems" in norm(i) for g in ow.args[0].generators for i in g.ifs):
                binder = ow.args[0].generators[0]
        if binder is None and isinstance(owner, ast.Name):
            x = c
            while x is not None and x is not fn:
                x = getattr(x, "_parent", None)
                if isinstance(x, ast.For) and owner.id in {n.id for n in ast.walk(x.target) if isinstance(n, ast.Name)}:
                    binder = x
                    break
                if isinstance(x, (ast.GeneratorExp, ast.ListComp)):
                    g = next((g for g in x.generators if owner.id in {n.id for n in ast.walk(g.target) if isinstance(n, ast.Name)}), None)
                    if g is not None:
                        binder = g
                        break
        if binder is None:
            if isinstance(owner, ast.Subscript) or isinstance(owner, ast.Name):
                res.findings.append(Finding(
                    "R-CHAIN", "optimize_mod_objs_computation_chain system lookup",
                    f"the system to recompute is looked up on one fixed object (`{norm(owner)[:50]}`) instead of the first "
                    f"object of the chain that has one: when that object is only being linked in (it has no system yet) "
                    f"the system is not appended and its total footprint keeps its pre-edit value", rel, c.lineno, fn.name))
            else:
                res.undecided.append("optimize_mod_objs_computation_chain: cannot tell which object the system is taken from")
    # 5. the value chain and the object chain are both used
    rel, fn = pm.find_function(MU, "ModelingUpdate.generate_optimized_attr_updates_chain")
    res.instances += 1
    t = norm(fn)
    uses_obj = "attr_updates_chain_from_mod_objs_computation_chains" in t
    uses_val = any(isinstance(n, ast.Attribute) and n.attr == "attr_updates_chain" for n in ast.walk(fn))
    # … for every edited value: the collection of the edited values' chains is not filtered
    from ..astutil import enorm as _en
    filt = None
    for n in ast.walk(fn):
        if isinstance(n, (ast.ListComp, ast.GeneratorExp)) and any(
                isinstance(x, ast.Attribute) and x.attr == "attr_updates_chain" for x in ast.walk(n.elt)):
            for g in n.generators:
                if g.ifs:
                    filt = g.ifs[0]
        if isinstance(n, ast.For) and any(isinstance(x, ast.Attribute) and x.attr == "attr_updates_chain" for x in ast.walk(n)):
            for i in ast.walk(n):
                if isinstance(i, ast.If) and any(isinstance(x, ast.Attribute) and x.attr == "attr_updates_chain"
                                                 for x in ast.walk(i)):
                    filt = i.test
    if filt is not None:
        res.findings.append(Finding(
            "R-CHAIN", "generate_optimized_attr_updates_chain filters the edited values",
            f"the descendants of an edited value are left out of the recomputation when `{norm(filt)[:80]}`: the value is "
            f"replaced by a new object all the same, so what was computed from the old one keeps pointing at a detached "
            f"value (explanations show the old input; later edits of the new one recompute nothing)", rel, filt.lineno,
            fn.name))
    if not (uses_obj and uses_val):
        res.findings.append(Finding(
            "R-CHAIN", "generate_optimized_attr_updates_chain sources",
            "the values to recompute no longer combine the chain of the recomputed objects (link edits) with the "
            "descendants of the edited values (numeric edits)", rel, fn.lineno, fn.name))
    # 6. a link edit always recomputes the object whose link changes: every normal return of the two chain builders hands
    #    back a chain that contains self.mod_objs_computation_chain (same members in another order, or with other
    #    multiplicities, still change what the object computes)
    from ..astutil import fully_expanded as _fx_cb, straightline_value as _slv_cb
    for q in ("compute_mod_objs_computation_chain_from_old_and_new_lists",
              "compute_mod_objs_computation_chain_from_old_and_new_modeling_objs"):
        try:
            rel_cb, f_cb = pm.find_function(MO, f"ModelingObject.{q}")
        except AnalysisError:
            continue
        res.instances += 1
        finder_cb = pm.any_helper_finder(rel_cb)
        own = "self.mod_objs_computation_chain"
        for r_ in [n for n in ast.walk(f_cb) if isinstance(n, ast.Return)]:
            v = r_.value
            texts = []
            if v is not None:
                e = _fx_cb(v, f_cb)
                texts.append(norm(e))
                for c_ in [x for x in ast.walk(e) if isinstance(x, ast.Call)]:
                    hv = _slv_cb(c_, pm.helper_finder("ModelingObject"), finder_cb)
                    if hv is not None:
                        texts.append(norm(hv))
                # a chain built by `chain += …` statements before the return
                for nm in {x.id for x in ast.walk(e) if isinstance(x, ast.Name)}:
                    for a_ in ast.walk(f_cb):
                        if isinstance(a_, ast.AugAssign) and isinstance(a_.target, ast.Name) and a_.target.id == nm \
                                and getattr(a_, "lineno", 0) <= getattr(r_, "lineno", 0):
                            texts.append(norm(a_.value))
                        if isinstance(a_, ast.Assign) and any(isinstance(t, ast.Name) and t.id == nm for t in a_.targets):
                            texts.append(norm(_fx_cb(a_.value, f_cb)))
            if not any(own in t for t in texts):
                res.findings.append(Finding(
                    "R-CHAIN", f"{q} returns a chain without the object itself",
                    f"ModelingObject.{q} has a return (`{norm(r_)[:60]}`) whose chain does not contain "
                    f"self.mod_objs_computation_chain: when a list is replaced by a list with the same members — in another "
                    f"order, or with a member repeated — nothing is recomputed, although the order of the steps places the "
                    f"jobs and a repeated step runs twice", rel_cb, r_.lineno, q))
    for f in res.findings:
        f.extra = dict(f.extra or {})
        f.extra.setdefault("clauses", ["system", "order"] if " system" in f.key else ["order"])
    res.samples = [{"function": "ExplainableObject.attr_updates_chain", "append_guard": "all(ancestors among descendants added)"}]
    res.floor = 6
    return res


def _period_record_test(pm, mod_suffix, inner):
    """`<period>.covers(date)` where the period is a small record of the module: its method returns `self.A <= <param> <=
    self.B`, and wherever the module builds such a record, A is None or taken with min (….min(), min(…)) and B None or
    taken with max — the same test as `min <= date <= max` on bare dates"""
    from .units import module_record_classes
    if not (isinstance(inner, ast.Call) and isinstance(inner.func, ast.Attribute) and len(inner.args) == 1
            and "simulation_date" in norm(inner.args[0])):
        return False
    rel, tree = pm.module_tree(mod_suffix)
    recs = {k: v for k, v in module_record_classes(tree).items() if isinstance(v, ast.ClassDef)}
    for rname, rc in recs.items():
        m = next((f for f in rc.body if isinstance(f, ast.FunctionDef) and f.name == inner.func.attr), None)
        if m is None or len(m.args.args) != 2:
            continue
        body = [b for b in m.body if not (isinstance(b, ast.Expr) and isinstance(b.value, ast.Constant))]
        if not (len(body) == 1 and isinstance(body[0], ast.Return) and isinstance(body[0].value, ast.Compare)):
            continue
        c = body[0].value
        me, p = m.args.args[0].arg, m.args.args[1].arg
        if not (len(c.ops) == 2 and all(isinstance(o, ast.LtE) for o in c.ops) and norm(c.comparators[0]) == p
                and isinstance(c.left, ast.Attribute) and norm(c.left.value) == me
                and isinstance(c.comparators[1], ast.Attribute) and norm(c.comparators[1].value) == me):
            continue
        fields = [b.target.id for b in rc.body if isinstance(b, ast.AnnAssign) and isinstance(b.target, ast.Name)]
        lo, hi = c.left.attr, c.comparators[1].attr
        if lo not in fields or hi not in fields:
            continue
        # every construction of the record in the module
        built = []
        for n in ast.walk(tree):
            if isinstance(n, ast.Call) and isinstance(n.func, ast.Name) and (
                    n.func.id == rname or (n.func.id == "cls" and any(y is n for y in ast.walk(rc)))):
                args = []
                for a in n.args:
                    if isinstance(a, ast.Starred) and isinstance(a.value, (ast.ListComp, ast.GeneratorExp)) \
                            and len(a.value.generators) == 1 and isinstance(a.value.generators[0].iter, (ast.Tuple, ast.List)) \
                            and isinstance(a.value.generators[0].target, ast.Name):
                        from ..astutil import substitute as _sub_pr
                        g = a.value.generators[0]
                        args += [_sub_pr(a.value.elt, {g.target.id: x}) for x in g.iter.elts]
                    elif isinstance(a, ast.Starred):
                        return False
                    else:
                        args.append(a)
                vals = dict(zip(fields, args))
                vals.update({k.arg: k.value for k in n.keywords if k.arg})
                built.append(vals)
        if not built:
            continue

        def ok(e, word):
            return e is None or (isinstance(e, ast.Constant) and e.value is None) or word in norm(e)
        if all(ok(v.get(lo), "min") and ok(v.get(hi), "max") for v in built) and any(
                v.get(lo) is not None and "min" in norm(v[lo]) for v in built):
            return True
    return False


@rule("R-SIMDATE")
def r_simdate(E):
    pm = E.pm
    res = RuleResult("R-SIMDATE", "a simulation keeps only hours at or after its date (filter direction), selects the "
                                  "series that still have such hours, rejects a date outside the modelled period and a "
                                  "naive date")
    rel, fn = pm.find_function(MU, "ModelingUpdate.filter_hourly_quantities_to_filter")
    res.instances += 1
    derived = {"simulation_date"}
    # (the per-series step may be a helper of the class that the function map()s over the series)
    fn_nodes = list(nodes_through_helpers(fn, pm.helper_finder("ModelingUpdate"), depth=2))
    for _ in range(3):
        for n in fn_nodes:
            if isinstance(n, ast.Assign) and isinstance(n.targets[0], ast.Name) and any(d in norm(n.value) for d in derived):
                derived.add(n.targets[0].id)
    cmp_ = [n for n in fn_nodes if isinstance(n, ast.Compare) and any(d in norm(n) for d in derived)
            and isinstance(n.ops[0], (ast.Lt, ast.LtE, ast.Gt, ast.GtE))]
    if len(cmp_) != 1:
        # no comparison of timestamps with the date: is the cut made by *position* (rows counted from the date)? That
        # presumes one row per hour from the first one on — false for series with a daylight-saving gap and for sums of
        # periods that do not touch — and a series that starts after the date gives a negative count, i.e. its tail
        pos = None
        for n in nodes_through_helpers(fn, pm.helper_finder("ExplainableHourlyQuantities"), depth=2):
            h = None
            if isinstance(n, ast.Call) and isinstance(n.func, ast.Attribute) and any(
                    d in norm(a) for a in n.args for d in derived):
                h = pm.helper_finder("ExplainableHourlyQuantities")(n.func.attr)
            for x in ([n] if h is None else list(ast.walk(h))):
                if isinstance(x, ast.Subscript) and isinstance(x.slice, ast.Slice) and (
                        (isinstance(x.value, ast.Attribute) and x.value.attr in ("iloc", "values"))
                        or "value" in norm(x.value)):
                    pos = x
                if isinstance(x, ast.Call) and isinstance(x.func, ast.Attribute) and x.func.attr in ("tail", "head"):
                    pos = x
        if not cmp_ and pos is not None:
            res.findings.append(Finding(
                "R-SIMDATE", "filter by position",
                f"the simulation filter no longer compares timestamps with the simulation date: it cuts the series by "
                f"position (`{norm(pos)[:60]}`) after counting hours from its first timestamp. A series that starts after "
                f"the date yields a negative count (only its last hours are kept), and a series with a gap (daylight "
                f"saving, periods that do not touch) is cut at the wrong row", rel, pos.lineno, fn.name))
        else:
            res.undecided.append("filter_hourly_quantities_to_filter: filtering comparison not found")
    else:
        c = cmp_[0]
        left_is_date = any(d in norm(c.left) for d in derived)
        op = type(c.ops[0])
        keeps_after = (op in (ast.GtE, ast.Gt) and not left_is_date) or (op in (ast.LtE, ast.Lt) and left_is_date)
        if not keeps_after:
            res.findings.append(Finding(
                "R-SIMDATE", "filter direction",
                f"the simulation filter keeps `{norm(c)}`: hours before the simulation date survive (or hours after it "
                f"are dropped)", rel, c.lineno, fn.name))
        elif op in (ast.Gt, ast.Lt):
            res.findings.append(Finding("R-SIMDATE", "filter strictness",
                                        "the hour of the simulation date itself is dropped from the simulated series",
                                        rel, c.lineno, fn.name))
    # what the recomputation of a simulation reads is cut at the date: the hourly ancestors outside the chain — and the
    # *new values of the changes themselves* when they are hourly series (a what-if on the traffic). The methods that
    # decide what is filtered and what the modelled period is must therefore look at the changes, not only at the
    # ancestors (which exclude the changed values by construction)
    from .framework import TxnAnalysis as _TA2
    T2 = _TA2(pm)
    res.instances += 1
    readers = [T2.methods.get(n_) for n_ in ("make_simulation_specific_operations", "compute_hourly_quantities_to_filter",
                                              "filter_hourly_quantities_to_filter")]
    sees_changes = any(f_ is not None and any(
        isinstance(x, ast.Attribute) and norm(x.value) == "self" and x.attr in ("changes_list", "new_sourcevalues")
        for x in ast.walk(f_)) for f_ in readers)
    if not sees_changes:
        f0 = T2.methods.get("compute_hourly_quantities_to_filter") or fn
        res.findings.append(Finding(
            "R-SIMDATE", "new hourly values of the changes are not filtered",
            "the series cut at the simulation date, and the modelled period the date is tested against, are taken from the "
            "ancestors outside the recomputation chain only — which exclude the changed values by construction — and "
            "nothing looks at the new values of the changes: a what-if that replaces an hourly input "
            "(hourly_usage_journey_starts) recomputes from the whole new series, so simulated values contain hours before "
            "the date; when that input is the only hourly ancestor the period is (None, None) and the test raises TypeError",
            T2.rel, f0.lineno, "ModelingUpdate.compute_hourly_quantities_to_filter"))
    rel, fn = pm.find_function(MU, "ModelingUpdate.compute_hourly_quantities_to_filter")
    fn_as_written = fn
    # (the first and last hours of a series gathered in a small record read as the expressions they are built from)
    try:
        from ..astutil import expand_records as _xr_sd
        from .units import package_record_classes as _prc_sd
        fn = _xr_sd(fn, pm.helper_finder("ModelingUpdate"), pm.any_helper_finder(rel), _prc_sd(pm), pm.unique_property_finder())
    except Exception:
        fn = fn_as_written
    res.instances += 1
    sel = [n.test for n in ast.walk(fn) if isinstance(n, ast.If) and "simulation_date" in norm(n.test)
           and any(isinstance(c.func, ast.Attribute) and c.func.attr == "append" for c in _calls(n))]
    # the same selection as the filter of a comprehension
    sel += [t for c in ast.walk(fn) if isinstance(c, (ast.ListComp, ast.GeneratorExp)) for g in c.generators for t in g.ifs
            if "simulation_date" in norm(t)]
    if len(sel) != 1:
        res.undecided.append("compute_hourly_quantities_to_filter: selection test not found")
    else:
        t = sel[0]
        if not (isinstance(t, ast.Compare) and ((isinstance(t.ops[0], ast.LtE) and "simulation_date" in norm(t.left)
                                                  and "max" in norm(t.comparators[0]))
                                                 or (isinstance(t.ops[0], ast.GtE) and "max" in norm(t.left)))):
            res.findings.append(Finding(
                "R-SIMDATE", "selection of series to filter",
                f"series are selected for filtering under `{norm(t)}` instead of `simulation_date <= <last hour>`: a "
                f"series that still has hours after the date keeps its whole history in the simulation", rel, t.lineno, fn.name))
    res.instances += 1
    per = [n for n in ast.walk(fn) if isinstance(n, ast.If) and any(isinstance(x, ast.Raise) for x in n.body)
           and "simulation_date" in norm(n.test)]
    if not per:
        res.findings.append(Finding("R-SIMDATE", "period check", "a simulation date outside the modelled period is no "
                                    "longer rejected", rel, fn.lineno, fn.name))
    else:
        t = per[0].test
        inner = t.operand if isinstance(t, ast.UnaryOp) and isinstance(t.op, ast.Not) else None
        good = inner is not None and isinstance(inner, ast.Compare) and len(inner.ops) == 2 and \
            all(isinstance(o, ast.LtE) for o in inner.ops) and "min" in norm(inner.left) and \
            "simulation_date" in norm(inner.comparators[0]) and "max" in norm(inner.comparators[1])
        if not good:
            good = _period_record_test(pm, MU, inner)
        if not good:
            res.undecided.append(f"compute_hourly_quantities_to_filter: period test `{norm(t)[:60]}` not recognised")
        # every normal exit has passed the period test (no early return that skips it)
        from ..paths import enumerate_paths
        skip = [p for p in enumerate_paths(fn, lambda n: n is per[0]) if p.end != "raise"
                and not any(tt is per[0].test for tt, _ in p.conds)]
        if skip:
            cond = " and ".join(("" if pol else "not ") + "(" + norm(tt)[:60] + ")" for tt, pol in skip[0].conds)
            res.findings.append(Finding(
                "R-SIMDATE", "period check skipped on a path",
                f"compute_hourly_quantities_to_filter returns without testing the simulation date against the modelled "
                f"period when `{cond[:150]}`: on that path a date outside the period is accepted", rel, fn.lineno, fn.name))
    from .framework import TxnAnalysis as _TA
    rel, fn = _TA(pm).rel, _TA(pm).methods["__init__"]
    res.instances += 1
    naive = [n for n in ast.walk(fn) if isinstance(n, ast.If) and "tzinfo is None" in norm(n.test)
             and any(isinstance(x, ast.Raise) for x in n.body)]
    if not naive:
        res.findings.append(Finding("R-SIMDATE", "naive date check", "a naive (timezone-less) simulation date is no longer "
                                    "rejected", rel, fn.lineno, "ModelingUpdate.__init__"))
    res.floor = 4
    return res


@rule("R-DELAY")
def r_delay(E):
    pm = E.pm
    res = RuleResult("R-DELAY", "a job occurrence is shifted by the time spent in the *preceding* steps only, once per "
                                "appearance of the job in the journey: inside the loop over steps the delay is increased "
                                "after the step's jobs were placed, by that step's user_time_spent")
    rel, fn = pm.find_function(JOB, "JobBase.compute_hourly_occurrences_for_usage_pattern")
    res.instances += 1
    outer = next((n for n in ast.walk(fn) if isinstance(n, ast.For) and norm(n.iter).endswith(".uj_steps")), None)
    counted = False
    if outer is None:
        # the walk over the steps written as a generator function of the module / class that yields (job, delay) pairs,
        # consumed by a loop or a sum(): read as the generator's body with the consumer in place of the yield
        from ..astutil import inline_generator_loops as _igl
        fn_g = _igl(fn, pm.helper_finder("JobBase"), pm.function_finder(rel))
        o2 = next((n for n in ast.walk(fn_g) if isinstance(n, ast.For) and norm(n.iter).endswith(".uj_steps")), None)
        if o2 is not None:
            fn, outer = fn_g, o2
    if outer is None:
        # the steps wrapped one by one into small records / tuples first: `pairs = [Rec(step, f(step)) for step in
        # ….uj_steps]; for p in pairs: … p.field …` reads as the loop over the steps with each `p.field` replaced by the
        # expression the record was built with
        from ..astutil import fully_expanded as _fx3, substitute_stmt as _sst, set_parents as _sp, clone as _cl
        for loop in [n for n in ast.walk(fn) if isinstance(n, ast.For) and isinstance(n.target, ast.Name)]:
            it = _fx3(loop.iter, fn)
            if not (isinstance(it, ast.ListComp) and len(it.generators) == 1 and not it.generators[0].ifs
                    and norm(it.generators[0].iter).endswith(".uj_steps") and isinstance(it.generators[0].target, ast.Name)
                    and isinstance(it.elt, ast.Call) and isinstance(it.elt.func, ast.Name)):
                continue
            names = None
            for m_, (r_, t_, _s) in pm.modules.items():
                for st in t_.body:
                    if isinstance(st, ast.Assign) and isinstance(st.targets[0], ast.Name) and st.targets[0].id == it.elt.func.id \
                            and isinstance(st.value, ast.Call) and "namedtuple" in norm(st.value.func) and len(st.value.args) >= 2:
                        spec = st.value.args[1]
                        names = [x.value for x in spec.elts] if isinstance(spec, (ast.List, ast.Tuple)) else \
                            str(getattr(spec, "value", "")).replace(",", " ").split()
                    if isinstance(st, ast.ClassDef) and st.name == it.elt.func.id and any("dataclass" in norm(d) for d in st.decorator_list):
                        names = [b.target.id for b in st.body if isinstance(b, ast.AnnAssign) and isinstance(b.target, ast.Name)]
            if not names or len(names) < len(it.elt.args):
                continue
            stepv = it.generators[0].target.id
            fields = dict(zip(names, it.elt.args))
            for k in it.elt.keywords:
                fields[k.arg] = k.value

            class _F(ast.NodeTransformer):
                def visit_Attribute(self, node):
                    self.generic_visit(node)
                    if isinstance(node.value, ast.Name) and node.value.id == loop.target.id and node.attr in fields:
                        return ast.copy_location(_cl(fields[node.attr]), node)
                    return node
            view = _cl(loop)
            view.body = [_F().visit(b) for b in view.body]
            view.iter = _cl(it.generators[0].iter)
            view.target = ast.Name(id=stepv, ctx=ast.Store())
            for x in ast.walk(view):
                for ch in ast.iter_child_nodes(x):
                    ch._parent = x
            view._parent = getattr(loop, "_parent", None)
            outer = view
            break
    if outer is not None:
        # "once per job of the step that is this job", spelled as a count: range(len([j for j in step.jobs if j == self]))
        # or range(step.jobs.count(self))
        stepn = norm(outer.target)
        for s_ in outer.body:
            if isinstance(s_, ast.For) and isinstance(s_.iter, ast.Call) and norm(s_.iter.func) == "range" and len(s_.iter.args) == 1:
                a = s_.iter.args[0]
                via_count = isinstance(a, ast.Call) and norm(a.func) == f"{stepn}.jobs.count" and [norm(x) for x in a.args] == ["self"]
                via_len = False
                if isinstance(a, ast.Call) and norm(a.func) == "len" and a.args and isinstance(a.args[0], (ast.ListComp, ast.GeneratorExp)):
                    g = a.args[0].generators
                    via_len = len(g) == 1 and norm(g[0].iter) == f"{stepn}.jobs" and len(g[0].ifs) == 1 and \
                        isinstance(g[0].ifs[0], ast.Compare) and isinstance(g[0].ifs[0].ops[0], ast.Eq) and \
                        {norm(g[0].ifs[0].left), norm(g[0].ifs[0].comparators[0])} == {norm(g[0].target), "self"}
                if via_count or via_len:
                    counted = s_
    if outer is None:
        # the steps must be enumerated from the list link itself (order and multiplicity): a loop whose step variable
        # comes out of a dict / set keyed by the step visits a step listed twice only once
        from ..astutil import fully_expanded
        for loop in [n for n in ast.walk(fn) if isinstance(n, ast.For)]:
            # the loop variable that stands for the step: the one whose .jobs are read (for a dict's items(), the key)
            tnames = {x.id for x in ast.walk(loop.target) if isinstance(x, ast.Name)}
            if isinstance(loop.iter, ast.Call) and isinstance(loop.iter.func, ast.Attribute) \
                    and loop.iter.func.attr == "items" and isinstance(loop.target, ast.Tuple) and loop.target.elts:
                tnames = {x.id for x in ast.walk(loop.target.elts[0]) if isinstance(x, ast.Name)}
            walks_jobs = any(isinstance(i, ast.Attribute) and i.attr == "jobs" and isinstance(i.value, ast.Name)
                             and i.value.id in tnames for i in ast.walk(loop))
            if not walks_jobs:
                continue
            it = fully_expanded(loop.iter, fn)
            keyed = (isinstance(it, ast.Call) and isinstance(it.func, ast.Attribute) and it.func.attr in ("items", "keys")) \
                or (isinstance(it, ast.Call) and isinstance(it.func, ast.Name) and it.func.id in ("set", "frozenset", "dict")) \
                or isinstance(it, (ast.Dict, ast.DictComp, ast.Set, ast.SetComp))
            if keyed:
                res.findings.append(Finding(
                    "R-DELAY", "steps enumerated from a keyed collection",
                    f"the journey's steps are taken from `{norm(loop.iter)[:60]}` (keys of a dict / set) instead of the "
                    f"uj_steps list: a step listed twice in the journey is visited once, with the delay of its last "
                    f"position — its jobs' occurrences are under-counted", rel, loop.lineno, fn.name))
                return res
        # the same enumeration written with itertools: the steps zipped with the running total of the time spent in
        # the steps *before* each of them — accumulate(<step.user_time_spent for step in the same steps>, initial=<empty>)
        # — and the job placed once per matching job of the step, shifted by that running total
        from ..astutil import fully_expanded as _fxd, fuse_generators as _fuse
        # (the (job, delay) pairs may come out of a generator helper: read fused with the comprehension that consumes them)
        fn_orig, fn = fn, _fuse(fn, pm.helper_finder("JobBase"), pm.function_finder(rel))
        for z in [n for n in ast.walk(fn) if isinstance(n, ast.Call) and isinstance(n.func, ast.Name) and n.func.id == "zip"
                  and len(n.args) == 2]:
            steps, delays = _fxd(z.args[0], fn), _fxd(z.args[1], fn)
            if not norm(steps).endswith(".uj_steps"):
                continue
            if isinstance(delays, ast.Call) and isinstance(delays.func, ast.Attribute) and norm(delays.func.value) in ("self", "cls"):
                # the running totals built by a small helper of the class: read as the expression it returns
                from ..astutil import inline_call_expr as _ice
                inl = _ice(delays, pm.helper_finder("JobBase"))
                if inl is not None:
                    delays = inl
            if not (isinstance(delays, ast.Call) and isinstance(delays.func, ast.Name) and delays.func.id == "accumulate"
                    and delays.args):
                continue
            res.instances += 1
            src = delays.args[0]
            init = next((k.value for k in delays.keywords if k.arg == "initial"), None)
            opf = delays.args[1] if len(delays.args) > 1 else next((k.value for k in delays.keywords if k.arg == "func"), None)
            gens = src.generators if isinstance(src, (ast.GeneratorExp, ast.ListComp)) else None
            from_same_steps = gens is not None and len(gens) == 1 and not gens[0].ifs and \
                norm(_fxd(gens[0].iter, fn)).split("[")[0] == norm(steps) and isinstance(gens[0].target, ast.Name) and \
                norm(src.elt) == f"{gens[0].target.id}.user_time_spent"
            if isinstance(src, ast.Call) and isinstance(src.func, ast.Name) and src.func.id == "map" and len(src.args) == 2:
                from_same_steps = norm(_fxd(src.args[1], fn)) == norm(steps) and "user_time_spent" in norm(src.args[0])
            if not from_same_steps or (opf is not None and norm(opf) not in ("operator.add", "add")):
                res.undecided.append("running total of the delays not recognised")
                return res
            if init is None or norm(init) != "EmptyExplainableObject()":
                res.findings.append(Finding(
                    "R-DELAY", "delay before placement",
                    "the delays are the running totals of the steps' durations *including* each step's own "
                    "(accumulate without initial=<empty>): every occurrence is shifted by its own step as well", rel,
                    delays.lineno, fn.name))
            # the comprehension / loop that consumes the pairs
            holder = getattr(z, "_parent", None)
            if isinstance(holder, ast.comprehension):
                comp = getattr(holder, "_parent", None)
                tgt = holder.target
                inner = [g for g in comp.generators if g is not holder]
                elt = comp.elt
            elif isinstance(holder, ast.For):
                comp, tgt, inner, elt = holder, holder.target, [], holder
            else:
                res.undecided.append("consumer of the (step, delay) pairs not recognised")
                return res
            if not (isinstance(tgt, ast.Tuple) and len(tgt.elts) == 2 and all(isinstance(x, ast.Name) for x in tgt.elts)):
                res.undecided.append("(step, delay) pair not unpacked")
                return res
            stepv, delayv = tgt.elts[0].id, tgt.elts[1].id
            res.instances += 1
            shifts = [c for c in ast.walk(elt) if isinstance(c, ast.Call) and isinstance(c.func, ast.Attribute)
                      and c.func.attr == "return_shifted_hourly_quantities"]
            if len(shifts) != 1 or [norm(a) for a in shifts[0].args] != [delayv] or \
                    "utc_hourly_usage_journey_starts" not in norm(_fxd(shifts[0].func.value, fn)):
                res.findings.append(Finding("R-DELAY", "placement", f"an occurrence is not placed at the UTC journey starts "
                                            f"shifted by the accumulated delay `{delayv}`", rel, z.lineno, fn.name))
            jobs_gen = next((g for g in inner if norm(g.iter) == f"{stepv}.jobs"), None)
            if isinstance(holder, ast.For):
                jl = next((x for x in ast.walk(holder) if isinstance(x, ast.For) and norm(x.iter) == f"{stepv}.jobs"), None)
                ok_mult = jl is not None and not any(isinstance(x, ast.Break) for x in ast.walk(jl))
            else:
                ok_mult = jobs_gen is not None and len(jobs_gen.ifs) == 1 and isinstance(jobs_gen.ifs[0], ast.Compare) \
                    and isinstance(jobs_gen.ifs[0].ops[0], ast.Eq) \
                    and {norm(jobs_gen.ifs[0].left), norm(jobs_gen.ifs[0].comparators[0])} == {norm(jobs_gen.target), "self"}
            if not ok_mult:
                res.undecided.append("placement per matching job of the step not recognised")
            res.instances += 1
            res.floor = 3
            return res
        # a running total that advances once per (step, job) listing instead of once per step
        from ..astutil import nodes_through_helpers as _nth_d, view_root as _vr_d
        for acc in [n for n in _nth_d(fn_orig, pm.helper_finder("JobBase"), depth=2, find_function=pm.function_finder(rel))
                    if isinstance(n, ast.Call) and isinstance(n.func, ast.Name) and n.func.id == "accumulate" and n.args]:
            owner = _vr_d(acc)[0] or fn_orig
            src = _fxd(acc.args[0], owner)
            if isinstance(src, (ast.GeneratorExp, ast.ListComp)) and len(src.generators) == 1 \
                    and norm(src.elt).endswith(".user_time_spent"):
                it = _fxd(src.generators[0].iter, owner)
                if isinstance(it, (ast.GeneratorExp, ast.ListComp)) and len(it.generators) >= 2 \
                        and any(norm(g.iter).endswith(".jobs") for g in it.generators[1:]) \
                        and norm(it.generators[0].iter).endswith(".uj_steps"):
                    res.findings.append(Finding(
                        "R-DELAY", "delay increment per job",
                        f"the running total of the delay advances once per (step, job) listing — over "
                        f"`{norm(it)[:70]}` — instead of once per step: a step with several jobs (or none) shifts the "
                        f"later occurrences by the wrong time", rel, acc.lineno, fn_orig.name))
                    res.floor = 1
                    return res
                # the delays as the exclusive prefix sums of the steps' durations: `zip(steps, accumulate((s.user_time_spent
                # for s in steps), add, initial=<empty>))` — the `initial` term is what shifts the sums by one step, so that
                # a step is delayed by the steps *before* it; without it each step is delayed by its own duration as well
                gi = src.generators[0]
                over_steps = norm(_fxd(gi.iter, owner)).endswith("uj_steps") and isinstance(gi.target, ast.Name) \
                    and norm(src.elt) == f"{gi.target.id}.user_time_spent" and not gi.ifs
                opf = norm(acc.args[1]) if len(acc.args) > 1 else next((norm(k.value) for k in acc.keywords if k.arg == "func"), "add")
                if over_steps and opf.split(".")[-1] in ("add", "__add__"):
                    res.instances += 1
                    has_initial = any(k.arg == "initial" for k in acc.keywords)
                    par_ = getattr(acc, "_parent", None)
                    zipped = any(isinstance(z, ast.Call) and norm(z.func) == "zip" and len(z.args) == 2
                                 and norm(_fxd(z.args[0], owner)).endswith("uj_steps")
                                 and any(y is acc for y in ast.walk(_fxd(z.args[1], owner))) or (
                                     isinstance(z, ast.Call) and norm(z.func) == "zip" and len(z.args) == 2
                                     and isinstance(z.args[1], ast.Name) and isinstance(par_, ast.Assign)
                                     and any(isinstance(t_, ast.Name) and t_.id == z.args[1].id for t_ in par_.targets))
                                 for z in ast.walk(owner))
                    if not zipped:
                        res.undecided.append("accumulated delays are not paired with the steps by zip(steps, delays)")
                    elif not has_initial:
                        res.findings.append(Finding(
                            "R-DELAY", "delay includes the step's own duration",
                            "the delays are the running totals of the steps' durations *including* each step's own (accumulate "
                            "without `initial`): a job is placed at the end of its step instead of its start — every "
                            "occurrence is shifted by the duration of the step that holds it", rel, acc.lineno, fn_orig.name))
                    res.floor = 1
                    return res
        res.undecided.append("no loop over uj_steps")
        return res
    step = norm(outer.target)
    inner = next((s for s in outer.body if isinstance(s, ast.For) and norm(s.iter) == f"{step}.jobs"), None)
    if inner is None and counted:
        inner = counted
    incs = [s for s in outer.body if isinstance(s, ast.AugAssign) and isinstance(s.op, ast.Add)]
    if inner is not None and not incs:
        deep = [s for s in ast.walk(inner) if isinstance(s, ast.AugAssign) and isinstance(s.op, ast.Add)
                and norm(s.value) == f"{step}.user_time_spent"]
        if deep:
            res.findings.append(Finding(
                "R-DELAY", "delay increment per job",
                f"the delay is increased by the step's user_time_spent inside the loop over the step's jobs — once per job "
                f"of the step instead of once per step: a step with several jobs (or none) shifts the later occurrences "
                f"by the wrong time", rel, deep[0].lineno, fn.name))
            res.floor = 1
            return res
    if inner is None or len(incs) != 1:
        res.undecided.append("step loop shape not recognised")
        return res
    inc = incs[0]
    delay = norm(inc.target)
    if norm(inc.value) != f"{step}.user_time_spent":
        res.findings.append(Finding("R-DELAY", "delay increment", f"the delay is increased by `{norm(inc.value)}` instead "
                                    f"of the step's user_time_spent", rel, inc.lineno, fn.name))
    if inc.lineno < inner.lineno:
        res.findings.append(Finding(
            "R-DELAY", "delay before placement",
            "the delay is increased by a step's duration *before* that step's jobs are placed: every occurrence is "
            "shifted by its own step as well", rel, inc.lineno, fn.name))
    res.instances += 1
    place = [s for s in ast.walk(inner) if isinstance(s, ast.AugAssign)]
    # the placement runs exactly for the jobs of the step that are this job: `if job == self:` around it, or
    # `if job != self: continue` before it
    is_self_test = False
    if len(place) == 1:
        from ..astutil import path_conditions, positive_atoms
        true, false = positive_atoms(path_conditions(place[0], fn))
        jv = norm(inner.target)
        for atoms, want in ((true, ast.Eq), (false, ast.NotEq)):
            for t in atoms:
                if isinstance(t, ast.Compare) and len(t.ops) == 1 and isinstance(t.ops[0], want) \
                        and {norm(t.left), norm(t.comparators[0])} == {jv, "self"}:
                    is_self_test = True
    if len(place) == 1 and counted is inner:
        is_self_test = True            # the count already selects the jobs of the step that are this job
    if len(place) != 1 or not is_self_test:
        res.undecided.append("placement shape not recognised")
    else:
        p = place[0]
        from ..astutil import enorm
        shift = next((c for c in _calls(p.value) if isinstance(c.func, ast.Attribute)
                      and c.func.attr == "return_shifted_hourly_quantities"), None)
        if shift is None or [norm(a) for a in shift.args] != [delay] or \
                "utc_hourly_usage_journey_starts" not in enorm(shift.func.value, fn):
            res.findings.append(Finding("R-DELAY", "placement", f"an occurrence is placed at `{norm(p.value)[:70]}`, not at "
                                        f"the UTC journey starts shifted by the accumulated delay", rel, p.lineno, fn.name))
        if any(isinstance(x, ast.Break) for x in ast.walk(inner)):
            res.findings.append(Finding("R-DELAY", "multiplicity", "a job appearing several times in one step is counted "
                                        "once", rel, inner.lineno, fn.name))
    # initial delay is empty/zero
    res.instances += 1
    init = next((n for n in fn.body if isinstance(n, ast.Assign) and norm(n.targets[0]) == delay), None)
    if init is None or norm(init.value) != "EmptyExplainableObject()":
        res.undecided.append("initial delay not recognised")
    res.floor = 3
    return res


@rule("R-CUMUL")
def r_cumul(E):
    pm = E.pm
    res = RuleResult("R-CUMUL", "the cumulative storage need is the running sum of the storage delta with the initial need "
                                "added at the first hour, computed on a copy; the delta adds needs, frees and automatic "
                                "dumps; the negativity check precedes the assignment")
    rel, fn = pm.find_function(ST, "Storage.update_full_cumulative_storage_need")
    res.instances += 1
    from ..astutil import fully_expanded as _fxc
    cs = [c for c in _calls(fn) if isinstance(c.func, ast.Attribute) and c.func.attr == "cumsum"]
    base = [n for n in ast.walk(fn) if isinstance(n, ast.AugAssign) and isinstance(n.op, ast.Add)
            and "base_storage_need" in norm(_fxc(n.value, fn))]
    if len(cs) != 1 or len(base) != 1:
        res.undecided.append("cumulative sum / base need statements not found")
    else:
        if base[0].lineno > cs[0].lineno:
            res.findings.append(Finding("R-CUMUL", "base need after cumsum", "the initial storage need is added after the "
                                        "running sum: only the first hour includes it", rel, base[0].lineno, fn.name))
        tgt = base[0].target
        first_cell = isinstance(tgt, ast.Subscript) and norm(tgt.slice) in ("(0, 0)", "0, 0", "0")
        if not first_cell:
            res.undecided.append(f"base need added to `{norm(tgt)}`")
        # the frame / array summed: `<frame>.cumsum()` or `np.cumsum(<array>)`; the one that received the base need:
        # `<frame>.iat[0, 0] += …` or `<array>[0] += …`
        summed = cs[0].args[0] if norm(cs[0].func.value) in ("np", "numpy") and cs[0].args else cs[0].func.value
        got_base = tgt.value.value if isinstance(tgt, ast.Subscript) and isinstance(tgt.value, ast.Attribute) else (
            tgt.value if isinstance(tgt, ast.Subscript) else tgt)
        if norm(summed) != norm(got_base):
            res.undecided.append("cumsum is applied to another frame than the one the base need was added to")
    res.instances += 1
    from ..astutil import nodes_through_helpers as _nthr
    _sf = pm.helper_finder("Storage")
    # the `if` that directly guards the raise (not an enclosing one: `if not empty: … if min < threshold: raise`)
    chk = [n for n in ast.walk(fn) if isinstance(n, ast.If) and any(
        isinstance(x, ast.Raise) for st_ in n.body if not isinstance(st_, (ast.If, ast.For, ast.While, ast.Try, ast.With))
        for x in _nthr(st_, _sf, depth=2))]
    asg = [n for n in ast.walk(fn) if isinstance(n, ast.Assign) and norm(n.targets[0]) == "self.full_cumulative_storage_need"
           and "EmptyExplainableObject" not in norm(n.value)]
    if not chk:
        res.findings.append(Finding("R-CUMUL", "negativity check", "a negative cumulative storage need is no longer "
                                    "rejected", rel, fn.lineno, fn.name))
    elif asg and chk[0].lineno > asg[0].lineno:
        res.findings.append(Finding("R-CUMUL", "check after assignment", "the negative-storage check runs after the value "
                                    "was installed", rel, chk[0].lineno, fn.name))
    elif chk:
        from ..astutil import fully_expanded as _fxn
        t = chk[0].test
        ok_shape = isinstance(t, ast.Compare) and len(t.ops) == 1 and isinstance(t.ops[0], ast.Lt) \
            and "min()" in norm(_fxn(t.left, fn))
        if not ok_shape:
            res.undecided.append(f"negativity test `{norm(t)[:60]}` not recognised")
        else:
            thr = _fxn(t.comparators[0], fn)
            if isinstance(thr, ast.Constant) and thr.value == 0:
                # writes and their expiries after the storage duration cancel out only up to floating point noise
                res.findings.append(Finding(
                    "R-CUMUL", "negativity check against exact zero",
                    "the cumulative storage need — a float running sum in which every replicated write is later cancelled "
                    "by its expiry — is rejected when its minimum is `< 0`: the cancellation leaves noise such as "
                    "-8.9e-16 TB, so a model in which no job deletes anything is refused for negative storage (4 of 40 "
                    "random traffic series)", rel, chk[0].lineno, fn.name))
            else:
                neg = isinstance(thr, ast.UnaryOp) and isinstance(thr.op, ast.USub) or (
                    isinstance(thr, ast.BinOp) and isinstance(thr.left, ast.UnaryOp) and isinstance(thr.left.op, ast.USub)) or (
                    isinstance(thr, ast.BinOp) and isinstance(thr.left, ast.Constant) and isinstance(thr.left.value, (int, float))
                    and thr.left.value < 0)
                relative = "max()" in norm(thr) or "abs(" in norm(thr)
                if not (neg and relative):
                    res.undecided.append(f"negativity threshold `{norm(thr)[:60]}` is neither zero nor a negative tolerance "
                                         f"relative to the size of the series")
    rel, fn = pm.find_function(ST, "Storage.update_storage_delta")
    res.instances += 1
    # (the three flows gathered in a small record by a straight-line helper read as the flows themselves)
    try:
        from ..astutil import expand_records as _xr
        from .units import module_record_classes as _mrc
        _rel_st, _tree_st = pm.module_tree(ST)
        fn = _xr(fn, pm.helper_finder("Storage"), None, _mrc(_tree_st))
    except Exception:
        pass
    terms = set()
    for n in ast.walk(fn):
        if isinstance(n, ast.Attribute) and isinstance(n.value, ast.Name) and n.value.id == "self" and n.attr in (
                "storage_needed", "storage_freed", "automatic_storage_dumps_after_storage_duration"):
            terms.add(n.attr)
    subs = [n for n in ast.walk(fn) if isinstance(n, ast.BinOp) and isinstance(n.op, ast.Sub)]
    if terms != {"storage_needed", "storage_freed", "automatic_storage_dumps_after_storage_duration"} or subs:
        res.findings.append(Finding("R-CUMUL", "delta terms", f"the storage delta is built from {sorted(terms)}"
                                    f"{' with a subtraction' if subs else ''}: it must add the replicated writes, the "
                                    f"(negative) deletions and the (negative) expiries", rel, fn.lineno, fn.name))
    # retention: data expires no earlier than the end of its storage duration, so the shift of the dumps rounds the
    # duration *up* to whole hours (rounding down frees space, and instances, up to an hour too early)
    rel, fn = pm.find_function(ST, "Storage.automatic_storage_dumps_after_storage_duration")
    res.instances += 1
    from ..astutil import fully_expanded

    def rounding_of(expr, f):
        # (a local bound once per arm of the function — the computation inlined in both arms of a memoising wrapper — is
        # read once per binding; the verdicts must agree, a single rounding down decides)
        from ..astutil import expansions as _exps
        vs = {_rounding_of_one(x_) for x_ in _exps(expr, f)}
        if "down" in vs:
            return "down"
        return "up" if vs == {"up"} else None

    def _rounding_of_one(x):
        # round(v, n) with n >= 1 keeps the fraction (it absorbs conversion noise): it is not a rounding to whole hours
        class _Drop(ast.NodeTransformer):
            def visit_Call(self, node):
                self.generic_visit(node)
                if isinstance(node.func, ast.Name) and node.func.id == "round" and len(node.args) == 2 \
                        and isinstance(node.args[1], ast.Constant) and isinstance(node.args[1].value, int) and node.args[1].value >= 1:
                    return node.args[0]
                return node
        from ..astutil import clone as _cl
        t = norm(_Drop().visit(_cl(x)))
        ups = ("math.ceil(", "np.ceil(")
        downs = ("math.floor(", "np.floor(", "int(", "round(", "//")
        if any(u_ in t for u_ in ups) and not any(d in t for d in downs):
            return "up"
        if any(d in t for d in downs):
            return "down"
        return None
    verdict = None
    # (the property and the same-class helpers it is written with: a memoising wrapper around the computation, …)
    from ..astutil import nodes_through_helpers as _nth_cu

    def _holder(n_, default):
        x_ = n_
        while x_ is not None and not isinstance(x_, ast.FunctionDef):
            x_ = getattr(x_, "_parent", None)
        return x_ if x_ is not None else default
    top_fn = fn
    for c in [n_ for n_ in _nth_cu(top_fn, pm.helper_finder("Storage"), depth=2) if isinstance(n_, ast.Call)]:
        fn = _holder(c, top_fn)
        if isinstance(c.func, ast.Attribute) and c.func.attr == "shift":
            amount = next((k.value for k in c.keywords if k.arg == "periods"), c.args[0] if c.args else None)
            from ..astutil import expansions as _exps2
            if amount is not None and any("data_storage_duration" in norm(x_) for x_ in _exps2(amount, fn)):
                v_ = rounding_of(amount, fn)
                verdict = "down" if "down" in (v_, verdict) else v_
        if isinstance(c.func, ast.Attribute) and c.func.attr == "return_shifted_hourly_quantities" and c.args \
                and "data_storage_duration" in norm(fully_expanded(c.args[0], fn)):
            relh, h = pm.find_function(EO, "ExplainableHourlyQuantities.return_shifted_hourly_quantities")
            sh = next((x for x in _calls(h) if isinstance(x.func, ast.Attribute) and x.func.attr == "shift"), None)
            verdict = rounding_of(sh.args[0], h) if sh is not None and sh.args else None
    fn = top_fn
    if verdict == "down":
        res.findings.append(Finding(
            "R-CUMUL", "retention rounded down",
            "the expiry of stored data is shifted by the storage duration rounded *down* to whole hours: with a duration "
            "that is not a whole number of hours data is dumped before its retention ends, and the cumulative need (and "
            "the instances provisioned for it) is too low for data that must still be kept", rel, fn.lineno, fn.name))
    elif verdict is None:
        res.undecided.append("automatic_storage_dumps_after_storage_duration: rounding of the storage duration not recognised")
    # every job of the storage is either a writer or a deleter: the filter of storage_needed and the filter of
    # storage_freed on the job's data_stored are each other's negation (a job that falls in neither group — data_stored
    # exactly 0 under a sign test — drops out of the delta, the base need is never added and nothing is provisioned)
    res.instances += 1
    from ..astutil import nodes_through_helpers, substitute
    from ..paths import formula, implies
    filt = {}
    pkg_fn = pm.package_function_finder()
    for pname in ("storage_needed", "storage_freed"):
        owner, pf = pm.find_method("Storage", pname)
        if pf is None:
            res.undecided.append(f"Storage.{pname} vanished")
            continue
        tests = []
        for n in nodes_through_helpers(pf, pm.helper_finder("Storage"), depth=3):
            ts = []
            if isinstance(n, ast.If):
                ts = [n.test]
            elif isinstance(n, ast.comprehension):
                ts = list(n.ifs)
            elif isinstance(n, ast.IfExp):
                ts = [n.test]
            elif isinstance(n, ast.Call) and isinstance(n.func, ast.Name) and n.func.id in ("filter", "filterfalse") \
                    and n.args and isinstance(n.args[0], ast.Lambda):
                ts = [n.args[0].body if n.func.id == "filter" else ast.UnaryOp(op=ast.Not(), operand=n.args[0].body)]
            elif isinstance(n, ast.Call) and isinstance(n.func, ast.Attribute) and n.func.attr == "get" and n.args \
                    and isinstance(n.args[0], ast.Constant) and isinstance(n.args[0].value, bool):
                # the jobs split in two by a predicate (`{flag: list(group) for flag, group in groupby(sorted(jobs, key=P),
                # key=P)}`) and one side taken: the side's test is P, or its negation
                host_ = n
                while host_ is not None and not isinstance(host_, ast.FunctionDef):
                    host_ = getattr(host_, "_parent", None)
                from ..astutil import fully_expanded as _fx_gb
                d_ = _fx_gb(n.func.value, host_) if host_ is not None else n.func.value
                gb = next((c_ for c_ in ast.walk(d_) if isinstance(c_, ast.Call) and norm(c_.func).split(".")[-1] == "groupby"), None) \
                    if isinstance(d_, ast.DictComp) else None
                key_ = None
                if gb is not None:
                    key_ = next((k_.value for k_ in gb.keywords if k_.arg == "key"), gb.args[1] if len(gb.args) > 1 else None)
                pred = None
                if isinstance(key_, ast.Lambda) and len(key_.args.args) == 1:
                    pred = substitute(key_.body, {key_.args.args[0].arg: ast.Name(id="job", ctx=ast.Load())})
                elif isinstance(key_, ast.Attribute) and isinstance(key_.value, ast.Name) and key_.value.id in ("self", "cls", "Storage"):
                    h_ = pm.helper_finder("Storage")(key_.attr)
                    b_ = [b for b in h_.body if not (isinstance(b, ast.Expr) and isinstance(b.value, ast.Constant))] if h_ is not None else []
                    ps_ = [a.arg for a in h_.args.args] if h_ is not None else []
                    if ps_ and ps_[0] in ("self", "cls"):
                        ps_ = ps_[1:]
                    if len(b_) == 1 and isinstance(b_[0], ast.Return) and b_[0].value is not None and len(ps_) == 1:
                        pred = substitute(b_[0].value, {ps_[0]: ast.Name(id="job", ctx=ast.Load())})
                elif isinstance(key_, ast.Name):
                    h_ = pkg_fn(key_.id)
                    b_ = [b for b in h_.body if not (isinstance(b, ast.Expr) and isinstance(b.value, ast.Constant))] if h_ is not None else []
                    if len(b_) == 1 and isinstance(b_[0], ast.Return) and b_[0].value is not None and len(h_.args.args) == 1:
                        pred = substitute(b_[0].value, {h_.args.args[0].arg: ast.Name(id="job", ctx=ast.Load())})
                if pred is not None:
                    ts = [pred if n.args[0].value else ast.UnaryOp(op=ast.Not(), operand=pred)]
            for t in ts:
                # a predicate handed over as a lambda and applied on the spot reads as its body
                while isinstance(t, ast.Call) and isinstance(t.func, ast.Lambda) and not t.keywords \
                        and len(t.args) == len(t.func.args.args):
                    t = substitute(t.func.body, {a.arg: v for a, v in zip(t.func.args.args, t.args)})
                # … and a predicate that is a small named function of the package (`job_deletes_data(job.data_stored)`)
                # reads as its single returned expression
                for _ in range(2):
                    if isinstance(t, ast.Call) and isinstance(t.func, ast.Name) and not t.keywords:
                        h_ = pkg_fn(t.func.id)
                        body_ = [b for b in h_.body if not (isinstance(b, ast.Expr) and isinstance(b.value, ast.Constant))] \
                            if h_ is not None else []
                        if len(body_) == 1 and isinstance(body_[0], ast.Return) and body_[0].value is not None \
                                and len(h_.args.args) == len(t.args):
                            t = substitute(body_[0].value, {a.arg: v for a, v in zip(h_.args.args, t.args)})
                bases = {x.value.id for x in ast.walk(t) if isinstance(x, ast.Attribute) and x.attr == "data_stored"
                         and isinstance(x.value, ast.Name)}
                if len(bases) == 1 and not any(norm(t) == norm(u) for u in tests):
                    tests.append(substitute(t, {next(iter(bases)): ast.Name(id="JOB", ctx=ast.Load())}))
        if tests:
            f = formula(tests[0]) if len(tests) == 1 else ("and", [formula(t) for t in tests])
            filt[pname] = (f, " and ".join(norm(t) for t in tests))
    if len(filt) == 2:
        (fn_, tn), (ff, tf) = filt["storage_needed"], filt["storage_freed"]
        if not (implies(("not", fn_), ff) and implies(ff, ("not", fn_))):
            res.findings.append(Finding(
                "R-CUMUL", "writers / deleters partition",
                f"storage_needed takes the jobs with `{tn[:60]}` and storage_freed those with `{tf[:60]}`: the two tests "
                f"are not each other's negation, so some job (data_stored exactly 0) is in neither group or in both — it "
                f"drops out of the storage delta (with only such jobs the base need is never added and no instance is "
                f"provisioned) or is counted twice", pm.path_of("Storage"), pm.find_method("Storage", "storage_needed")[1].lineno,
                "Storage.storage_needed"))
    elif filt or True:
        if len(filt) < 2:
            res.undecided.append("Storage.storage_needed / storage_freed: the test on data_stored that selects the jobs was not found")
    res.floor = 5
    return res


@rule("R-JSON-ID")
def r_json_id(E):
    pm = E.pm
    res = RuleResult("R-JSON-ID", "loading keeps identifiers: objects are rebuilt without calling their constructors (which "
                                  "would draw fresh ids), and the system's id is saved before, and restored after, its "
                                  "re-initialisation")
    rel, fn = pm.find_function(J2S, "json_to_system")
    res.instances += 1
    from ..astutil import nodes_through_helpers as _nthj
    news = [c for c in _nthj(fn, None, depth=2, find_function=pm.function_finder(rel))
            if isinstance(c, ast.Call) and isinstance(c.func, ast.Attribute) and c.func.attr == "__new__"]
    if not news:
        res.findings.append(Finding("R-JSON-ID", "objects built through constructors",
                                    "json_to_system no longer creates objects with __new__: constructors assign fresh "
                                    "random ids, so links stored by id no longer resolve", rel, fn.lineno, fn.name))
    res.instances += 1
    init = next((c for c in _calls(fn) if isinstance(c.func, ast.Attribute) and c.func.attr == "__init__"), None)
    if init is None:
        res.undecided.append("system re-initialisation not found")
    else:
        obj = norm(init.func.value)
        saves = [n for n in ast.walk(fn) if isinstance(n, ast.Assign) and norm(n.value) == f"{obj}.id" and n.lineno < init.lineno]
        restores = [n for n in ast.walk(fn) if isinstance(n, ast.Assign) and norm(n.targets[0]) == f"{obj}.id" and n.lineno > init.lineno]
        if not saves or not restores or norm(restores[0].value) != norm(saves[0].targets[0]):
            res.findings.append(Finding(
                "R-JSON-ID", "system id not restored",
                "the system is re-initialised (which draws a fresh id) without its saved id being put back: the loaded "
                "system has another identifier than the saved one", rel, init.lineno, fn.name))
    # the writer emits the id
    rel2, tj = pm.find_function(MO, "ModelingObject.to_json")
    res.instances += 1
    wl = set()
    for n in ast.walk(tj):
        if isinstance(n, ast.Compare) and isinstance(n.ops[0], ast.In) and isinstance(n.comparators[0], (ast.List, ast.Tuple)):
            wl |= {e.value for e in n.comparators[0].elts if isinstance(e, ast.Constant)}
    if not {"name", "id"} <= wl:
        res.findings.append(Finding("R-JSON-ID", "writer drops name/id", f"to_json's explicit list {sorted(wl)} lacks name or "
                                    f"id", rel2, tj.lineno, tj.name))
    res.floor = 3
    return res


@rule("R-VAL-AUTH")
def r_val_auth(E):
    pm = E.pm
    res = RuleResult("R-VAL-AUTH", "check_belonging_to_authorized_values refuses a value outside the attribute's list, a "
                                   "value outside the list selected by the attribute it depends on, and a controlling value "
                                   "that would orphan a dependent attribute")
    rel, fn = pm.find_function(MO, "ModelingObject.check_belonging_to_authorized_values")
    params = [a.arg for a in fn.args.args]
    tops = [s for s in fn.body if isinstance(s, ast.If)]
    cases = {"list_values": None, "conditional_list_values": None, "attributes_with_depending_values": None}
    for s in tops:
        for k in cases:
            if f"{params[1]} in {k}.keys()" == norm(s.test) or f"{params[1]} in {k}" == norm(s.test):
                cases[k] = s
    for k, s in cases.items():
        res.instances += 1
        if s is None:
            res.findings.append(Finding("R-VAL-AUTH", f"{k} branch", f"the allowed-values check no longer has a branch for "
                                        f"{k}", rel, fn.lineno, fn.name))
            continue
        refusals = [n for n in ast.walk(s) if isinstance(n, ast.If) and any(
            isinstance(c, ast.Compare) and any(isinstance(o, ast.NotIn) for o in c.ops) for c in ast.walk(n.test))]
        if not refusals:
            res.findings.append(Finding(
                "R-VAL-AUTH", f"{k} refusal",
                f"the {k} branch of the allowed-values check no longer tests membership in the allowed list", rel,
                s.lineno, fn.name))
        for r in refusals:
            if not any(isinstance(x, ast.Raise) for x in r.body):
                res.findings.append(Finding(
                    "R-VAL-AUTH", f"{k} refusal",
                    f"the {k} branch of the allowed-values check no longer raises on a value that is not in the allowed "
                    f"list", rel, r.lineno, fn.name))
    # the controlling / dependent values are those of the object being validated: read with getattr(self, …) and used
    # as they are (not as the fallback of a lookup in some other table, whose keys — attribute names — do not say
    # which object they belong to)
    for k in ("conditional_list_values", "attributes_with_depending_values"):
        s_ = cases.get(k)
        if s_ is None:
            continue
        res.instances += 1
        gets = [c for c in _calls(s_) if isinstance(c.func, ast.Name) and c.func.id == "getattr" and c.args
                and norm(c.args[0]) == params[0]]
        if not gets:
            res.findings.append(Finding("R-VAL-AUTH", f"{k} reads the object", f"the {k} branch no longer reads the other "
                                        f"attribute's value from the object being validated", rel, s_.lineno, fn.name))
        for g in gets:
            par = getattr(g, "_parent", None)
            if isinstance(par, ast.Call) and par is not g and not (isinstance(par.func, ast.Name) and par.func.id in (
                    "isinstance", "str", "repr", "print")):
                res.findings.append(Finding(
                    "R-VAL-AUTH", f"{k} value read through {norm(par.func)[:40]}",
                    f"in the {k} branch the other attribute's value is `{norm(par)[:90]}`: the object's own value is only "
                    f"a fallback, the first source is keyed by attribute name alone — in an update that touches two "
                    f"objects, one object's pending value is used to validate the other's", rel, g.lineno, fn.name))
    # a caller that asks for the check only for names it has looked up first (`if name in <names>: self.check_…(name, …)`)
    # must look them up in every table the check consults: a name that is a key of a table left out of <names> is never
    # checked against that table
    from ..astutil import expansions as _exps_va
    tables = list(cases)
    for mod, (rel_c, tree_c, _) in sorted(pm.modules.items()):
        for caller in [f_ for f_ in ast.walk(tree_c) if isinstance(f_, ast.FunctionDef) and f_ is not fn]:
            for c in [x for x in ast.walk(caller) if isinstance(x, ast.Call) and isinstance(x.func, ast.Attribute)
                      and x.func.attr == fn.name and x.args]:
                res.instances += 1
                name_arg = norm(c.args[0])
                # the tables as the caller names them (positional arguments 3..5 of the check / keywords)
                passed = {}
                for i, k in enumerate(tables):
                    a_ = c.args[2 + i] if len(c.args) > 2 + i else next((kw.value for kw in c.keywords if kw.arg == k), None)
                    if a_ is not None:
                        passed[k] = sorted({norm(a_)} | {norm(y_) for y_ in _exps_va(a_, caller)})
                x = getattr(c, "_parent", None)
                gate = None
                while x is not None and x is not caller:
                    if isinstance(x, ast.If) and isinstance(x.test, ast.Compare) and len(x.test.ops) == 1 \
                            and isinstance(x.test.ops[0], ast.In) and norm(x.test.left) == name_arg \
                            and any(y is c for b_ in x.body for y in ast.walk(b_)):
                        gate = x
                        break
                    x = getattr(x, "_parent", None)
                if gate is None or len(passed) != 3:
                    continue
                alts = [norm(a_) for a_ in _exps_va(gate.test.comparators[0], caller)]
                missing = [k for k, ts_ in passed.items() if not all(any(t_ in a_ for t_ in ts_) for a_ in alts)]
                if missing:
                    pc_ = getattr(caller, "_parent", None)
                    while pc_ is not None and not isinstance(pc_, ast.ClassDef):
                        pc_ = getattr(pc_, "_parent", None)
                    q = f"{pc_.name}.{caller.name}" if pc_ is not None else caller.name
                    res.findings.append(Finding(
                        "R-VAL-AUTH", f"{q} :: allowed-values check asked only for names of some tables",
                        f"{q} calls {fn.name} only when `{norm(gate.test)[:80]}`, and that collection "
                        f"(`{alts[0][:100]}`) leaves out the keys of {missing}: an input whose allowed values are declared "
                        f"there only is never checked at this entry point, so a value outside its list is accepted",
                        rel_c, gate.lineno, q))
    res.floor = 5
    return res


def _ctor_events(pm, cn, seen=()):
    """the `self.<attr> = …` assignments of the constructor chain of cn in execution order (super().__init__ expanded where
    it is called): ('link', attr, owner class, line) for a link wrapper / list of links, ('input', …) for a value that
    comes from a constructor parameter"""
    owner, f = pm.find_method(cn, "__init__")
    if f is None or owner in seen:
        return []
    ev = []
    params = {a.arg for a in f.args.args[1:]} | {a.arg for a in f.args.kwonlyargs}
    for st in f.body:
        sup = [c for c in ast.walk(st) if isinstance(c, ast.Call) and isinstance(c.func, ast.Attribute) and c.func.attr == "__init__"
               and isinstance(c.func.value, ast.Call) and norm(c.func.value.func) == "super"]
        if sup:
            nxt = next((k for k in pm.mro(owner)[1:] if k in pm.classes and any(
                isinstance(x, ast.FunctionDef) and x.name == "__init__" for x in pm.classes[k].node.body)), None)
            if nxt:
                ev += _ctor_events(pm, nxt, seen + (owner,))
            continue
        for a in [x for x in ast.walk(st) if isinstance(x, ast.Assign)]:
            for t in a.targets:
                if isinstance(t, ast.Attribute) and norm(t.value) == "self":
                    v = norm(a.value)
                    if v.startswith(("ContextualModelingObjectAttribute(", "ListLinkedToModelingObj(")):
                        ev.append(("link", t.attr, owner, a.lineno))
                    elif any(isinstance(x, ast.Name) and x.id in params for x in ast.walk(a.value)):
                        ev.append(("input", t.attr, owner, a.lineno))
    return ev


@rule("R-CTORLINK")
def r_ctorlink(E):
    pm = E.pm
    res = RuleResult("R-CTORLINK", "a constructor assigns the inputs that validation can refuse before it links the object "
                                   "under construction to other objects of the model: a link wrapper registers the new object "
                                   "with the object it points to as soon as it is assigned, so an input refused afterwards "
                                   "leaves the constructor with an exception and the model with a half-built object in its "
                                   "reverse links (the service and its server list a job that does not exist)")
    for cn in sorted(pm.ALL):
        ev = _ctor_events(pm, cn)
        if not ev:
            continue
        res.instances += 1
        first = next((i for i, e in enumerate(ev) if e[0] == "link"), None)
        if first is None:
            continue
        for kind, attr, owner, line in ev[first + 1:]:
            if kind != "input":
                continue
            res.findings.append(Finding(
                "R-CTORLINK", f"{cn}.{attr} assigned after the link {ev[first][1]}",
                f"{cn}.__init__ assigns the input `{attr}` (in {owner}.__init__) after the link `{ev[first][1]}` has been set "
                f"(in {ev[first][2]}.__init__): when `{attr}` is refused — wrong dimension, negative, outside its allowed list — "
                f"the half-built {cn} is already registered with the object `{ev[first][1]}` points to, and stays in its "
                f"reverse links after the exception", pm.path_of(owner), line, f"{owner}.__init__"))
    res.floor = 15
    return res


@rule("R-DEADLINK")
def r_deadlink(E):
    pm = E.pm
    res = RuleResult("R-DEADLINK", "whoever reads the objects that hold a model object out of its list of link wrappers "
                                   "(`contextual_modeling_obj_containers`) skips the wrappers whose container is None, as the "
                                   "`modeling_obj_containers` property does: a wrapper stays in that list after its link is "
                                   "gone (a replaced link, a refused or no-op assignment), so the most recent wrapper may well "
                                   "be a dead one")
    for mod, (rel, tree, src) in sorted(pm.modules.items()):
        for fn in [f for f in ast.walk(tree) if isinstance(f, ast.FunctionDef)]:
            gens = [(n, g) for n in ast.walk(fn) if isinstance(n, (ast.ListComp, ast.GeneratorExp, ast.SetComp, ast.DictComp))
                    for g in n.generators] + [(n, n) for n in ast.walk(fn) if isinstance(n, ast.For)]
            for host, g in gens:
                if not any(isinstance(x, ast.Attribute) and x.attr == "contextual_modeling_obj_containers" for x in ast.walk(g.iter)):
                    continue
                if not isinstance(g.target, ast.Name):
                    continue
                v = g.target.id
                body = [host.elt] if isinstance(host, (ast.ListComp, ast.GeneratorExp, ast.SetComp)) else (
                    [host.key, host.value] if isinstance(host, ast.DictComp) else list(host.body))
                reads = [x for b in body for x in ast.walk(b) if isinstance(x, ast.Attribute) and x.attr == "modeling_obj_container"
                         and isinstance(x.value, ast.Name) and x.value.id == v]
                if not reads:
                    continue
                res.instances += 1
                tests = list(g.ifs) if isinstance(g, ast.comprehension) else [
                    n.test for b in host.body for n in ast.walk(b) if isinstance(n, ast.If)]
                alive = any(isinstance(c, ast.Compare) and len(c.ops) == 1 and isinstance(c.ops[0], (ast.IsNot, ast.NotEq))
                            and norm(c.left) == f"{v}.modeling_obj_container" and isinstance(c.comparators[0], ast.Constant)
                            and c.comparators[0].value is None for t in tests for c in ast.walk(t)) or any(
                    norm(t) == f"{v}.modeling_obj_container" for t in tests)
                pc = getattr(fn, "_parent", None)
                q = f"{pc.name}.{fn.name}" if isinstance(pc, ast.ClassDef) else fn.name
                if not alive:
                    res.findings.append(Finding(
                        "R-DEADLINK", f"{q} reads containers of dead wrappers",
                        f"{q} takes `{v}.modeling_obj_container` for every wrapper of `{norm(g.iter)[:60]}` without skipping the "
                        f"wrappers whose container is None: after a no-op re-assignment or a refused edit the most recent "
                        f"wrapper is a detached one, so the object is reported as held by nobody (a storage without server: "
                        f"its energy footprint becomes 'no value' and drops out of the total)", rel, reads[0].lineno, q))
                elif len(res.samples) < 3:
                    res.samples.append({"site": q, "verdict": "dead wrappers skipped"})
    res.floor = 1
    return res


@rule("R-KINDCOVER")
def r_kindcover(E):
    pm = E.pm
    res = RuleResult("R-KINDCOVER", "where the update machinery asks whether a replaced value is an explainable value by "
                                    "naming classes, the classes named cover every class of explainable value: a test that "
                                    "lists the value classes of explainable_objects.py (quantity, hourly quantities, empty) "
                                    "means 'any explainable object' and must not leave out the other subclasses of "
                                    "ExplainableObject (SourceObject: a country's time zone, a builder's technology), whose "
                                    "edits would then trigger no recomputation")
    if "ExplainableObject" not in pm.classes:
        raise AnalysisError("R-KINDCOVER: ExplainableObject vanished")
    family = set(pm.subclasses("ExplainableObject")) - {"ExplainableObject"}
    direct = {c for c in family if "ExplainableObject" in [norm(b).split(".")[-1] for b in pm.classes[c].node.bases]}
    value_mod = pm.classes["ExplainableQuantity"].module if "ExplainableQuantity" in pm.classes else None
    value_classes = {c for c in direct if pm.classes[c].module == value_mod}
    if len(value_classes) < 3 or not (direct - value_classes):
        raise AnalysisError(f"R-KINDCOVER: class family not as confirmed by hand (value classes {sorted(value_classes)}, "
                            f"direct subclasses {sorted(direct)})")
    for mod, (rel, tree, src) in sorted(pm.modules.items()):
        if "abstract_modeling_classes/" not in rel or rel.endswith("explainable_objects.py"):
            continue
        for fn in [f for f in ast.walk(tree) if isinstance(f, ast.FunctionDef)]:
            # isinstance(x, (A, B, …)) and `isinstance(x, A) or isinstance(x, B) …` on the same x
            groups = []
            for n in ast.walk(fn):
                if isinstance(n, ast.Call) and isinstance(n.func, ast.Name) and n.func.id == "isinstance" and len(n.args) == 2:
                    res.instances += 1
                    if isinstance(n.args[1], ast.Tuple):
                        groups.append((n, norm(n.args[0]), [norm(e) for e in n.args[1].elts]))
                if isinstance(n, ast.BoolOp) and isinstance(n.op, ast.Or):
                    parts = [v for v in n.values if isinstance(v, ast.Call) and isinstance(v.func, ast.Name)
                             and v.func.id == "isinstance" and len(v.args) == 2 and isinstance(v.args[1], ast.Name)]
                    if len(parts) == len(n.values) and len({norm(v.args[0]) for v in parts}) == 1:
                        groups.append((n, norm(parts[0].args[0]), [v.args[1].id for v in parts]))
            for node, subj, names in groups:
                named = {x.split(".")[-1] for x in names}
                if not value_classes <= named or "ExplainableObject" in named:
                    continue
                covered = set()
                for c in named & set(pm.classes):
                    covered |= set(pm.subclasses(c)) | {c}
                left_out = sorted(family - covered)
                if left_out:
                    pc = getattr(fn, "_parent", None)
                    q = f"{pc.name}.{fn.name}" if isinstance(pc, ast.ClassDef) else fn.name
                    res.findings.append(Finding(
                        "R-KINDCOVER", f"{q} :: {norm(node)[:80]}",
                        f"{q} recognises an explainable value with `{norm(node)[:90]}`: every value class of "
                        f"explainable_objects.py is named, but {left_out} derive from ExplainableObject too and are left out — "
                        f"a change of such an input (the time zone of a country is a SourceObject) is then no input-value "
                        f"change: nothing that depends on it is recomputed", rel, node.lineno, q))
    res.floor = 20
    return res


MODEL_DIRS = ("efootprint/core/", "efootprint/builders/services/", "efootprint/builders/hardware/boavizta_cloud_server.py")


def _mentions(e, name):
    return any(isinstance(x, ast.Name) and x.id == name for x in ast.walk(e))


@rule("R-ACCUM")
def r_accum(E):
    pm = E.pm
    res = RuleResult("R-ACCUM", "accumulator discipline in model code: a value initialised before a loop and used after "
                                "it is only *added to* inside the loop (never overwritten), and the term added in one "
                                "iteration does not contain the accumulator itself (that would compound instead of sum)")
    for mod, (rel, tree, src) in sorted(pm.modules.items()):
        if not any(rel.startswith(d) for d in MODEL_DIRS):
            continue
        for fn in [n for n in ast.walk(tree) if isinstance(n, ast.FunctionDef)]:
            loops = [n for n in ast.walk(fn) if isinstance(n, ast.For)]
            for L in loops:
                # candidate accumulators: names assigned before the loop (in fn) and assigned inside the loop body
                before = {}
                for n in ast.walk(fn):
                    if isinstance(n, ast.Assign) and n.lineno < L.lineno:
                        for t in n.targets:
                            if isinstance(t, ast.Name):
                                before[t.id] = n
                inside = []
                for n in ast.walk(L):
                    if n is L:
                        continue
                    if isinstance(n, ast.Assign):
                        for t in n.targets:
                            if isinstance(t, ast.Name) and t.id in before:
                                inside.append((t.id, n))
                    if isinstance(n, ast.AugAssign) and isinstance(n.target, ast.Name) and n.target.id in before:
                        inside.append((n.target.id, n))
                end = max((getattr(x, "end_lineno", L.lineno) or L.lineno) for x in ast.walk(L) if hasattr(x, "lineno"))
                for v, st in inside:
                    used_after = any(isinstance(x, ast.Name) and x.id == v and isinstance(x.ctx, ast.Load) and x.lineno > end
                                     for x in ast.walk(fn))
                    if not used_after:
                        continue
                    # the loop variable itself / names rebound per iteration from the loop target are not accumulators
                    if _mentions(L.target, v):
                        continue
                    # only values: the initialiser is an empty explainable, None, 0, a set/list/dict literal
                    ini = before[v].value
                    is_acc = (isinstance(ini, ast.Call) and norm(ini.func) in ("EmptyExplainableObject", "set", "list", "dict")) \
                        or (isinstance(ini, ast.Constant) and ini.value in (None, 0)) or isinstance(ini, (ast.List, ast.Set, ast.Dict))
                    if not is_acc:
                        continue
                    res.instances += 1
                    q = fn.name
                    cls = fn
                    while cls is not None and not isinstance(cls, ast.ClassDef):
                        cls = getattr(cls, "_parent", None)
                    q = f"{cls.name}.{fn.name}" if cls is not None else fn.name
                    if isinstance(st, ast.Assign):
                        # first-iteration initialisation: the assignment runs only where the accumulator is still None
                        from ..astutil import path_conditions as _pc
                        from ..paths import path_formula as _pf, implies as _imp, parse as _parse
                        guarded_init = _imp(_pf(_pc(st, fn), fn), _parse(f"{v} is None"))
                        if not _mentions(st.value, v) and not guarded_init:
                            res.findings.append(Finding(
                                "R-ACCUM", f"{q} overwrites {v} :: {norm(st)[:80]}",
                                f"{q}: `{v}` is initialised before the loop over `{norm(L.iter)[:40]}` and used after it, "
                                f"but this iteration assigns it afresh (`{norm(st)[:60]}`): the contributions of earlier "
                                f"iterations are lost", rel, st.lineno, q))
                            continue
                        term = None
                        if isinstance(st.value, ast.Call) and isinstance(st.value.func, ast.Attribute) and \
                                norm(st.value.func.value) == v and st.value.args:
                            term = st.value.args[0]
                        elif isinstance(st.value, ast.BinOp) and norm(st.value.left) == v:
                            term = st.value.right
                    else:
                        term = st.value
                        if not isinstance(st.op, (ast.Add, ast.BitOr)):
                            res.findings.append(Finding(
                                "R-ACCUM", f"{q} scales {v} inside the loop :: {norm(st)[:80]}",
                                f"{q}: the accumulator `{v}` is multiplied / divided inside the loop over "
                                f"`{norm(L.iter)[:40]}` (`{norm(st)[:50]}`): the factor is applied once per element met so "
                                f"far, so the result depends on how many elements there are and on their order (a "
                                f"set-derived order changes between runs)", rel, st.lineno, q))
                            continue
                    if term is not None and _mentions(term, v):
                        res.findings.append(Finding(
                            "R-ACCUM", f"{q} compounds {v} :: {norm(st)[:80]}",
                            f"{q}: the term added to `{v}` in each iteration (`{norm(term)[:60]}`) contains `{v}` itself: "
                            f"the loop compounds (doubles) instead of summing one contribution per iteration", rel,
                            st.lineno, q))
                    elif len(res.samples) < 6:
                        res.samples.append({"function": q, "accumulator": v, "update": norm(st)[:70]})
    res.floor = 5      # accumulation loops left in model code (12 today; sum() / reduce() rewrites remove some)
    return res


# ---------------------------------------------------------------------------------------------- R-PAREN (C07)
OPS = ["+", "-", "*", "/"]
# parentheses that the displayed formula needs so that re-reading it gives the recorded tree
NEEDS = {("/", "right"): {"+", "-", "*", "/"}, ("/", "left"): {"+", "-"}, ("*", "left"): {"+", "-"},
         ("*", "right"): {"+", "-"}, ("-", "right"): {"+", "-"}}


class _Undecided(Exception):
    pass


class _Elem:
    """a symbolic operand of the explanation tuple: a leaf, or a nested tuple computed with operator `op`"""
    def __init__(self, side, op):
        self.side, self.op = side, op      # op None = leaf (an ExplainableObject)


class _Ret(Exception):
    def __init__(self, v):
        self.v = v


class _Env(dict):
    """a scope: names bound here, then the enclosing scope — looked up when the name is *read* (a closure created in a
    loop sees the loop variable's value at call time, as in Python)"""
    def __init__(self, parent=None):
        super().__init__()
        self.parent = parent

    def lookup(self, name):
        e = self
        while e is not None:
            if dict.__contains__(e, name):
                return dict.__getitem__(e, name)
            e = e.parent
        raise KeyError(name)

    def has(self, name):
        try:
            self.lookup(name)
            return True
        except KeyError:
            return False


class _Closure:
    def __init__(self, node, env, defaults):
        self.node, self.env, self.defaults = node, env, defaults


def _recursive_methods(cls):
    """names of the methods of the class that can reach a call of themselves through `self.<m>(…)` / `cls.<m>(…)` calls"""
    memo = getattr(cls, "_efa_recursive", None)
    if memo is None:
        g = {}
        for m in cls.body:
            if isinstance(m, ast.FunctionDef):
                g[m.name] = {c.func.attr for c in ast.walk(m) if isinstance(c, ast.Call) and isinstance(c.func, ast.Attribute)
                             and isinstance(c.func.value, ast.Name) and c.func.value.id in ("self", "cls")}
        memo = set()
        for m in g:
            seen, todo = set(), list(g[m])
            while todo:
                x = todo.pop()
                if x in seen or x not in g:
                    continue
                seen.add(x)
                todo.extend(g[x])
            if m in seen:
                memo.add(m)
        cls._efa_recursive = memo
    return memo


class _ParenInterp:
    """symbolic run of print_tuple_element on (left, op, right): returns the displayed string with <L>/<R> placeholders.
    A small concrete evaluator: strings, tuples, lists, dicts, closures (lambdas / local defs / module-level tables built
    by loops), if / for / return — whatever it does not know makes the rule undecided."""

    def __init__(self, fn, op, left, right, module_tree=None, class_node=None):
        self.fn = fn
        self.cls = class_node      # the class of the method: `self.<constant>` / `self.<helper>(…)` are read from it
        self.params = [a.arg for a in fn.args.args]
        self.tuple = (left, op, right)
        self.globals = _Env()
        self.env = _Env(self.globals)
        if module_tree is not None:
            # module-level tables the function may consult: statements that cannot be evaluated are skipped (a name
            # they would have bound stays unknown)
            saved = self.env
            self.env = self.globals
            for st in module_tree.body:
                if isinstance(st, ast.FunctionDef):
                    self.globals[st.name] = st
                    continue
                if isinstance(st, (ast.Assign, ast.For, ast.AugAssign)) or (isinstance(st, ast.Expr) and isinstance(st.value, ast.Call)):
                    try:
                        self.block([st])
                    except (_Undecided, _Ret, KeyError, TypeError, AttributeError, IndexError):
                        pass
            self.env = saved

    def run(self):
        self.env[self.params[1]] = self.tuple
        if len(self.params) > 2:
            self.env[self.params[2]] = False
        try:
            self.block(self.fn.body)
        except _Ret as r:
            return r.v
        return None

    def _try(self, e):
        try:
            return self.ev(e)
        except _Undecided:
            return None

    def block(self, stmts):
        for s in stmts:
            if isinstance(s, ast.If):
                t = self.ev(s.test)
                if not isinstance(t, bool):
                    raise _Undecided(f"test {norm(s.test)[:50]}")
                self.block(s.body if t else s.orelse)
            elif isinstance(s, ast.Assign):
                v = self.ev(s.value)
                for t in s.targets:
                    if isinstance(t, ast.Name):
                        self.env[t.id] = v
                    elif isinstance(t, ast.Tuple) and isinstance(v, tuple) and len(v) == len(t.elts):
                        for a, b in zip(t.elts, v):
                            self.env[a.id] = b
                    elif isinstance(t, ast.Subscript) and isinstance(self.ev(t.value), dict):
                        k = self.ev(t.slice)
                        if not isinstance(k, (str, int, bool, tuple)):
                            raise _Undecided("dictionary key")
                        self.ev(t.value)[k] = v
                    else:
                        raise _Undecided("assignment target")
            elif isinstance(s, ast.Return):
                raise _Ret(self.ev(s.value) if s.value is not None else None)
            elif isinstance(s, ast.FunctionDef):
                self.env[s.name] = s
            elif isinstance(s, ast.For):
                it = self.ev(s.iter)
                if not isinstance(it, (list, tuple)):
                    raise _Undecided(f"loop over {norm(s.iter)[:40]}")
                for v in list(it):
                    if isinstance(s.target, ast.Name):
                        self.env[s.target.id] = v
                    elif isinstance(s.target, ast.Tuple) and isinstance(v, tuple) and len(v) == len(s.target.elts) \
                            and all(isinstance(t, ast.Name) for t in s.target.elts):
                        for t, x in zip(s.target.elts, v):
                            self.env[t.id] = x
                    else:
                        raise _Undecided("loop target")
                    self.block(s.body)
            elif isinstance(s, ast.Expr) and isinstance(s.value, ast.Call):
                self.ev(s.value)
            elif isinstance(s, (ast.Pass, ast.Expr)):
                continue
            else:
                raise _Undecided(f"statement {type(s).__name__}")

    def ev(self, e):
        if isinstance(e, ast.Constant):
            return e.value
        if isinstance(e, ast.Name):
            if self.env.has(e.id):
                return self.env.lookup(e.id)
            if e.id in ("tuple", "str", "ExplainableObject"):
                return ("class", e.id)
            raise _Undecided(f"name {e.id}")
        if isinstance(e, ast.Lambda):
            ds = e.args.defaults
            names = [a.arg for a in e.args.args]
            return _Closure(e, self.env, {n: self.ev(d) for n, d in zip(names[len(names) - len(ds):], ds)})
        if isinstance(e, ast.Dict):
            out = {}
            for k, v in zip(e.keys, e.values):
                if k is None:
                    raise _Undecided("dict unpacking")
                out[self.ev(k)] = self.ev(v)
            return out
        if isinstance(e, ast.Tuple):
            return tuple(self.ev(x) for x in e.elts)
        if isinstance(e, (ast.List, ast.Set)):
            return [self.ev(x) for x in e.elts]
        if isinstance(e, ast.Subscript):
            b = self.ev(e.value)
            k = self.ev(e.slice)
            if isinstance(b, (tuple, list)) and isinstance(k, int):
                return b[k]
            if isinstance(b, dict):
                if k not in b:
                    raise _Undecided(f"key {k!r} missing")
                return b[k]
            if isinstance(b, _Elem) and k == 1:
                if b.op is None:
                    raise _Undecided("operator of a leaf")
                return b.op
            raise _Undecided(f"subscript {norm(e)[:40]}")
        if isinstance(e, ast.BoolOp):
            res = None
            for v in e.values:
                res = self.ev(v)
                if not isinstance(res, bool):
                    res = bool(res) if isinstance(res, (str, type(None))) else res
                if isinstance(e.op, ast.And) and res is False:
                    return False
                if isinstance(e.op, ast.Or) and res is True:
                    return True
            return res
        if isinstance(e, ast.UnaryOp) and isinstance(e.op, ast.Not):
            v = self.ev(e.operand)
            if isinstance(v, bool):
                return not v
            raise _Undecided("not")
        if isinstance(e, ast.Compare) and len(e.ops) == 1:
            l, r, op = self.ev(e.left), self.ev(e.comparators[0]), e.ops[0]
            if isinstance(op, (ast.Is, ast.IsNot)):
                same = (l is None and r is None)
                if isinstance(l, _Elem) or isinstance(r, _Elem) or isinstance(l, str) or isinstance(r, str):
                    same = False
                return same if isinstance(op, ast.Is) else not same
            if isinstance(l, tuple) and l and l[0] == "type":
                is_tuple = isinstance(l[1], tuple) or (isinstance(l[1], _Elem) and l[1].op is not None)
                if r == ("class", "tuple"):
                    return is_tuple if isinstance(op, ast.Eq) else not is_tuple
                if r == ("class", "str"):
                    return isinstance(l[1], str) if isinstance(op, ast.Eq) else not isinstance(l[1], str)
                raise _Undecided("type comparison")
            if isinstance(op, ast.Eq):
                return l == r
            if isinstance(op, ast.NotEq):
                return l != r
            if isinstance(op, ast.In):
                return l in r
            if isinstance(op, ast.NotIn):
                return l not in r
            raise _Undecided("comparison")
        if isinstance(e, ast.JoinedStr):
            out = ""
            for v in e.values:
                if isinstance(v, ast.Constant):
                    out += str(v.value)
                else:
                    x = self.ev(v.value)
                    if not isinstance(x, str):
                        raise _Undecided("f-string part")
                    out += x
            return out
        if isinstance(e, ast.BinOp) and isinstance(e.op, ast.Add):
            l, r = self.ev(e.left), self.ev(e.right)
            if isinstance(l, str) and isinstance(r, str):
                return l + r
            raise _Undecided("+")
        if isinstance(e, ast.IfExp):
            t = self.ev(e.test)
            if not isinstance(t, bool):
                raise _Undecided("conditional expression")
            return self.ev(e.body if t else e.orelse)
        if isinstance(e, (ast.ListComp, ast.GeneratorExp)):
            out = []
            saved = self.env

            def loop(i):
                if i == len(e.generators):
                    out.append(self.ev(e.elt))
                    return
                g = e.generators[i]
                it = self.ev(g.iter)
                if not isinstance(it, (list, tuple)):
                    raise _Undecided(f"comprehension over {norm(g.iter)[:40]}")
                for v in list(it):
                    if isinstance(g.target, ast.Name):
                        self.env[g.target.id] = v
                    elif isinstance(g.target, ast.Tuple) and isinstance(v, tuple) and len(v) == len(g.target.elts) \
                            and all(isinstance(t, ast.Name) for t in g.target.elts):
                        for t, x in zip(g.target.elts, v):
                            self.env[t.id] = x
                    else:
                        raise _Undecided("comprehension target")
                    ok = True
                    for c in g.ifs:
                        r = self.ev(c)
                        if not isinstance(r, bool):
                            raise _Undecided("comprehension filter")
                        ok = ok and r
                    if ok:
                        loop(i + 1)
            self.env = _Env(saved)
            try:
                loop(0)
            finally:
                self.env = saved
            return out
        if isinstance(e, ast.Attribute) and isinstance(e.value, ast.Name) and e.value.id in ("self", "cls") \
                and isinstance(self.cls, ast.ClassDef):
            for st in self.cls.body:
                if isinstance(st, ast.Assign) and any(isinstance(t, ast.Name) and t.id == e.attr for t in st.targets):
                    return self.ev(st.value)
            for st in self.cls.body:
                # a method of the class handed over as a value (a leaf renderer chosen once)
                if isinstance(st, ast.FunctionDef) and st.name == e.attr:
                    return ("method", st)
            raise _Undecided(f"attribute self.{e.attr}")
        if isinstance(e, ast.Call) and isinstance(e.func, ast.Attribute) and isinstance(e.func.value, ast.Name) \
                and e.func.value.id in ("self", "cls") and isinstance(self.cls, ast.ClassDef) \
                and e.func.attr != self.fn.name and e.args and (
                    e.func.attr in getattr(self, "stack", ()) or e.func.attr in _recursive_methods(self.cls)) \
                and isinstance(self._try(e.args[0]), _Elem):
            # the rendering recursion, wherever it sits (a helper that calls itself on an operand, directly or through
            # another helper): a placeholder for the operand
            x = self.ev(e.args[0])
            if isinstance(x, _Elem):
                return "<L>" if x.side == "left" else "<R>"
            raise _Undecided("recursive call")
        if isinstance(e, ast.Call) and isinstance(e.func, ast.Attribute) and isinstance(e.func.value, ast.Name) \
                and e.func.value.id in ("self", "cls") and isinstance(self.cls, ast.ClassDef) \
                and e.func.attr != self.fn.name:
            g = next((st for st in self.cls.body if isinstance(st, ast.FunctionDef) and st.name == e.func.attr), None)
            if g is not None:
                static = any(norm(d) == "staticmethod" for d in g.decorator_list)
                ps = [a.arg for a in g.args.args]
                if not static:
                    ps = ps[1:]
                sub = _ParenInterp(g, None, None, None, class_node=self.cls)
                sub.globals = self.globals
                sub.env = _Env(self.globals)
                for a, v in zip(ps, [self.ev(x) for x in e.args]):
                    sub.env[a] = v
                for k in e.keywords:
                    sub.env[k.arg] = self.ev(k.value)
                sub.fn = self.fn
                sub.stack = list(getattr(self, "stack", ())) + [g.name]
                try:
                    sub.block([b for b in g.body if not (isinstance(b, ast.Expr) and isinstance(b.value, ast.Constant))])
                except _Ret as r:
                    return r.v
                return None
        if isinstance(e, ast.Call):
            f = e.func
            if isinstance(f, ast.Name) and f.id == "type" and len(e.args) == 1:
                return ("type", self.ev(e.args[0]))
            if isinstance(f, ast.Name) and f.id == "isinstance" and len(e.args) == 2:
                x, c = self.ev(e.args[0]), self.ev(e.args[1])
                if c == ("class", "tuple"):
                    return isinstance(x, tuple) or (isinstance(x, _Elem) and x.op is not None)
                if c == ("class", "str"):
                    return isinstance(x, str)
                if c == ("class", "ExplainableObject"):
                    return isinstance(x, _Elem) and x.op is None
                raise _Undecided("isinstance")
            if isinstance(f, ast.Attribute) and f.attr == self.fn.name:
                x = self.ev(e.args[0])          # recursive call on an operand: a placeholder
                if isinstance(x, _Elem):
                    return "<L>" if x.side == "left" else "<R>"
                raise _Undecided("recursive call")
            if isinstance(f, ast.Name) and f.id == "bool" and len(e.args) == 1:
                x = self.ev(e.args[0])
                if isinstance(x, (bool, int, str, type(None))):
                    return bool(x)
                raise _Undecided("bool()")
            if isinstance(f, ast.Name) and f.id == "enumerate" and len(e.args) == 1:
                x = self.ev(e.args[0])
                if isinstance(x, (list, tuple)):
                    return [(i, v) for i, v in enumerate(x)]
                raise _Undecided("enumerate()")
            if isinstance(f, ast.Name) and f.id in ("list", "tuple") and len(e.args) == 1:
                x = self.ev(e.args[0])
                if isinstance(x, (list, tuple)):
                    return list(x) if f.id == "list" else tuple(x)
                raise _Undecided("list()")
            if isinstance(f, ast.Attribute) and f.attr in ("get", "append", "items", "keys", "values", "join"):
                recv = self.ev(f.value)
                if isinstance(recv, dict) and f.attr == "get":
                    k = self.ev(e.args[0])
                    return recv[k] if k in recv else (self.ev(e.args[1]) if len(e.args) > 1 else None)
                if isinstance(recv, dict) and f.attr in ("items", "keys", "values"):
                    return list(getattr(recv, f.attr)())
                if isinstance(recv, list) and f.attr == "append" and len(e.args) == 1:
                    recv.append(self.ev(e.args[0]))
                    return None
                if isinstance(recv, str) and f.attr == "join" and len(e.args) == 1:
                    xs = self.ev(e.args[0])
                    if isinstance(xs, (list, tuple)) and all(isinstance(x, str) for x in xs):
                        return recv.join(xs)
                raise _Undecided(f"call {norm(f)[:30]}")
            callee = None
            if not (isinstance(f, ast.Attribute) and f.attr == self.fn.name):
                try:
                    callee = self.ev(f) if isinstance(f, (ast.Name, ast.Subscript, ast.Call)) else None
                except _Undecided:
                    callee = None
            if isinstance(callee, _Closure):
                node = callee.node
                sub = _ParenInterp(self.fn, None, None, None, class_node=self.cls)
                sub.globals = self.globals
                sub.env = _Env(callee.env)
                names = [a.arg for a in node.args.args]
                for n_, v in callee.defaults.items():
                    sub.env[n_] = v
                for n_, a in zip(names, e.args):
                    sub.env[n_] = self.ev(a)
                for k in e.keywords:
                    sub.env[k.arg] = self.ev(k.value)
                if any(not dict.__contains__(sub.env, n_) for n_ in names):
                    raise _Undecided("closure called with missing arguments")
                return sub.ev(node.body)
            if isinstance(callee, ast.FunctionDef) or (
                    isinstance(f, ast.Name) and self.env.has(f.id) and isinstance(self.env.lookup(f.id), ast.FunctionDef)):
                g = callee if isinstance(callee, ast.FunctionDef) else self.env.lookup(f.id)
                sub = _ParenInterp(g, None, None, None, class_node=self.cls)
                sub.globals = self.globals
                sub.env = _Env(self.env)
                for a, v in zip([x.arg for x in g.args.args], [self.ev(x) for x in e.args]):
                    sub.env[a] = v
                for k in e.keywords:
                    sub.env[k.arg] = self.ev(k.value)
                sub.fn = self.fn
                try:
                    sub.block(g.body)
                except _Ret as r:
                    return r.v
                return None
            raise _Undecided(f"call {norm(f)[:30]}")
        raise _Undecided(f"expression {type(e).__name__}")


@rule("R-PAREN")
def r_paren(E):
    pm = E.pm
    res = RuleResult("R-PAREN", "explain() parenthesises a sub-expression wherever operator precedence requires it, so that "
                                "the displayed formula denotes the recorded operation tree (a / (b * c) is not shown as "
                                "a / b * c): print_tuple_element is run symbolically on every (operator, operand side, "
                                "operand's own operator) that needs parentheses")
    rel, fn = pm.find_function(EB, "ExplainableObject.print_tuple_element")
    mod_tree = next((t for m, (r, t, _) in pm.modules.items() if r == rel), None)
    raw_tree = next((t for m, (r, t) in pm.raw_modules.items() if r == rel), None)
    raw_cls = next((c for c in (raw_tree.body if raw_tree is not None else []) if isinstance(c, ast.ClassDef)
                    and c.name == "ExplainableObject"), None)
    raw_fn = next((m for m in (raw_cls.body if raw_cls is not None else []) if isinstance(m, ast.FunctionDef)
                   and m.name == "print_tuple_element"), None)
    for (op, side), need in sorted(NEEDS.items()):
        for child in sorted(need):
            res.instances += 1
            left = _Elem("left", child if side == "left" else None)
            right = _Elem("right", child if side == "right" else None)
            try:
                shown = _ParenInterp(fn, op, left, right, mod_tree, class_node=getattr(fn, "_parent", None)).run()
            except _Undecided as u:
                # the function as written (helpers not inlined: a rendering recursion that goes through helpers is cut
                # at the helper call) is an equally faithful reading
                try:
                    if raw_fn is None:
                        raise u
                    shown = _ParenInterp(raw_fn, op, left, right, raw_tree, class_node=getattr(raw_fn, "_parent", None)).run()
                except _Undecided:
                    res.undecided.append(f"print_tuple_element: cannot evaluate symbolically ({u})")
                    continue
            ph = "<L>" if side == "left" else "<R>"
            if not isinstance(shown, str) or ph not in shown:
                res.undecided.append(f"print_tuple_element: unexpected result {str(shown)[:40]!r} for operator {op!r}")
                continue
            if f"({ph})" not in shown:
                a, b = ("(x %s y) %s z" % (child, op), "x %s y %s z" % (child, op)) if side == "left" else \
                       ("x %s (y %s z)" % (op, child), "x %s y %s z" % (op, child))
                res.findings.append(Finding(
                    "R-PAREN", f"{op} {side} operand with {child}",
                    f"explain(): under operator {op!r} a {side} operand computed with {child!r} is printed without "
                    f"parentheses (`{shown}`): the recorded `{a}` is displayed as `{b}`, which re-evaluates to another "
                    f"value", rel, fn.lineno, fn.name))
            elif len(res.samples) < 4:
                res.samples.append({"operator": op, "operand": side, "child_operator": child, "displayed": shown})
    res.floor = 12
    return res


# ---------------------------------------------------------------------------------------------- R-UNITS (C09)
@rule("R-UNITS")
def r_units(E):
    import os
    import re
    pm = E.pm
    res = RuleResult("R-UNITS", "the custom units that stand for distinct physical resources (cpu_core, gpu) each define "
                                "their own base dimension, so that mixing them raises instead of yielding a number")
    path = os.path.join(pm.root, "constants", "custom_units.txt")
    rel = "efootprint/constants/custom_units.txt"
    if not os.path.exists(path):
        raise AnalysisError("custom_units.txt vanished")
    defs = {}
    for i, line in enumerate(open(path).read().splitlines(), 1):
        line = line.split("#")[0].strip()
        if not line or "=" not in line:
            continue
        name, rhs = [x.strip() for x in line.split("=", 1)]
        defs[name] = (rhs, i)
    # units used in the code as resource kinds
    used = set()
    for mod, (r2, tree, src) in pm.modules.items():
        for n in ast.walk(tree):
            if isinstance(n, ast.Attribute) and isinstance(n.value, ast.Name) and n.value.id == "u" and n.attr in defs:
                used.add(n.attr)
    dims = {}
    for name in sorted(used | {"cpu_core", "gpu"}):
        res.instances += 1
        if name not in defs:
            res.findings.append(Finding("R-UNITS", f"{name} undefined", f"custom unit {name} is no longer defined", rel))
            continue
        rhs, ln = defs[name]
        first = rhs.split("=")[0].strip()
        m = re.fullmatch(r"\[(\w+)\]", first)
        if name in ("cpu_core", "gpu"):
            if not m:
                res.findings.append(Finding(
                    "R-UNITS", f"{name} has no dimension of its own",
                    f"custom unit `{name}` is defined as `{first}` instead of its own base dimension `[{name}]`: "
                    f"quantities in {name} become commensurable with `{first.split()[-1]}` and arithmetic that must raise "
                    f"(cpu cores + gpus) silently yields a number", rel, ln))
            else:
                if m.group(1) in dims:
                    res.findings.append(Finding("R-UNITS", f"{name} shares dimension [{m.group(1)}]",
                                                f"`{name}` and `{dims[m.group(1)]}` share the base dimension "
                                                f"[{m.group(1)}]", rel, ln))
                dims[m.group(1)] = name
        if len(res.samples) < 4:
            res.samples.append({"unit": name, "definition": rhs})
    res.floor = 2
    return res


# ---------------------------------------------------------------------------------------------- R-LEAK (C02, C12, C19)
@rule("R-LEAK")
def r_leak(E):
    pm = E.pm
    res = RuleResult("R-LEAK", "model code does not read a for-loop variable after its loop has ended: the value is "
                               "whatever element happened to come last (for collections derived from sets: arbitrary)")
    for mod, (rel, tree, src) in sorted(pm.modules.items()):
        if not any(rel.startswith(d) for d in MODEL_DIRS):
            continue
        for fn in [n for n in ast.walk(tree) if isinstance(n, ast.FunctionDef)]:
            loops = [n for n in ast.walk(fn) if isinstance(n, ast.For) and isinstance(n.target, ast.Name)]
            for L in loops:
                v = L.target.id
                end = max((getattr(x, "end_lineno", None) or getattr(x, "lineno", L.lineno)) for x in ast.walk(L)
                          if hasattr(x, "lineno"))
                res.instances += 1
                for x in ast.walk(fn):
                    if not (isinstance(x, ast.Name) and x.id == v and isinstance(x.ctx, ast.Load) and x.lineno > end):
                        continue
                    # rebound on the way? (a later loop / comprehension over the same name, or an assignment)
                    rebound = False
                    p = x
                    while p is not None and p is not fn:
                        par = getattr(p, "_parent", None)
                        if isinstance(par, ast.For) and par is not L and _mentions(par.target, v) and p is not par.iter:
                            rebound = True
                        if isinstance(par, (ast.ListComp, ast.SetComp, ast.GeneratorExp, ast.DictComp)):
                            for g in par.generators:
                                if _mentions(g.target, v) and p is not g.iter:
                                    rebound = True
                        p = par
                    for a in ast.walk(fn):
                        if isinstance(a, ast.Assign) and end < a.lineno <= x.lineno and any(
                                isinstance(t, ast.Name) and t.id == v for t in a.targets):
                            rebound = True
                    if rebound:
                        continue
                    cls = fn
                    while cls is not None and not isinstance(cls, ast.ClassDef):
                        cls = getattr(cls, "_parent", None)
                    q = f"{cls.name}.{fn.name}" if cls is not None else fn.name
                    res.findings.append(Finding(
                        "R-LEAK", f"{q} reads {v} after its loop",
                        f"{q}: `{v}` is read at line {int(x.lineno)} after the loop `for {v} in {norm(L.iter)[:40]}` has ended: "
                        f"it is the last element iterated — one arbitrary object stands in for all of them (and for "
                        f"set-derived collections the choice changes between runs)", rel, x.lineno, q))
                    break
    res.floor = 20
    return res


# ---------------------------------------------------------------------------------------------- R-REPLACE-SYM (C05)
def _swap_names(e, a, b):
    class Sw(ast.NodeTransformer):
        def visit_Name(self, n):
            if n.id == a:
                return ast.copy_location(ast.Name(id=b, ctx=n.ctx), n)
            if n.id == b:
                return ast.copy_location(ast.Name(id=a, ctx=n.ctx), n)
            return n
    from ..astutil import clone
    return Sw().visit(clone(e))


def _canon_bool(e):
    if isinstance(e, ast.BoolOp):
        return "(" + (" and " if isinstance(e.op, ast.And) else " or ").join(sorted(_canon_bool(v) for v in e.values)) + ")"
    if isinstance(e, ast.UnaryOp) and isinstance(e.op, ast.Not):
        return "not " + _canon_bool(e.operand)
    return norm(e)


@rule("R-REPLACE-SYM")
def r_replace_sym(E):
    pm = E.pm
    res = RuleResult("R-REPLACE-SYM", "the replace primitive accepts (a replaced by b) exactly when it accepts (b replaced "
                                      "by a): set_updated_values and reset_values apply it in both directions, so an "
                                      "asymmetric precondition makes one direction of a toggle raise midway")
    rel, fn = pm.find_function("abstract_modeling_classes/object_linked_to_modeling_obj.py",
                               "ObjectLinkedToModelingObj.replace_in_mod_obj_container_without_recomputation")
    from ..astutil import inlined_view as _iv_s
    fn = _iv_s(fn, lambda name: (pm.find_method("ObjectLinkedToModelingObj", name)[1] if name not in (
        "replace_in_mod_obj_container_without_recomputation", "set_modeling_obj_container") else None), rounds=2, max_body=40)
    p = [a.arg for a in fn.args.args]
    me, new = p[0], p[1]
    checked = 0
    from ..astutil import path_conditions
    from ..paths import path_formula, implies
    for a in [x for x in ast.walk(fn) if isinstance(x, ast.Assert)]:
        conds = path_conditions(a, fn)
        if not conds or not any(isinstance(y, ast.Name) and y.id in (me, new) for t, _ in conds for y in ast.walk(t)):
            continue
        # the conditions under which the assertion is evaluated, and the same with the two values exchanged
        res.instances += 1
        checked += 1
        F = path_formula(conds, fn)
        Fs = path_formula([(_swap_names(t, me, new), pol) for t, pol in conds], fn)
        if not (implies(F, Fs) and implies(Fs, F)):
            cond = " and ".join(("" if pol else "not ") + "(" + norm(t)[:60] + ")" for t, pol in conds)
            res.findings.append(Finding(
                "R-REPLACE-SYM", "type-compatibility guard",
                f"the type-compatibility assertion of the replace primitive is guarded by `{cond[:120]}`, which "
                f"is not symmetric in ({me}, {new}): replacing an empty value by a non-empty one is refused while the "
                f"opposite is accepted, so reset_values / set_updated_values raise halfway for simulations that "
                f"change a value's emptiness", rel, a.lineno, fn.name))
        res.instances += 1
        if _canon_bool(a.test) != _canon_bool(_swap_names(a.test, me, new)):
            res.findings.append(Finding("R-REPLACE-SYM", "type-compatibility assertion",
                                        f"`{norm(a.test)[:90]}` is not symmetric in ({me}, {new})", rel, a.lineno,
                                        fn.name))
    if not checked:
        res.undecided.append("replace primitive: type-compatibility guard not found")
    res.floor = 2
    return res


# ---------------------------------------------------------------------------------------------- R-TZREPLACE (C06, C11)
@rule("R-TZREPLACE")
def r_tzreplace(E):
    pm = E.pm
    res = RuleResult("R-TZREPLACE", "`.replace(tzinfo=...)` re-labels a datetime without converting it: it is only applied "
                                    "to a value just tested naive (`x.tzinfo is None`), never to an aware instant such as "
                                    "the simulation date")
    for mod, (rel, tree, src) in sorted(pm.modules.items()):
        for c in [n for n in ast.walk(tree) if isinstance(n, ast.Call) and isinstance(n.func, ast.Attribute)
                  and n.func.attr == "replace" and any(k.arg == "tzinfo" for k in n.keywords)]:
            res.instances += 1
            recv = norm(c.func.value)
            fn = c
            while fn is not None and not isinstance(fn, ast.FunctionDef):
                fn = getattr(fn, "_parent", None)
            # the conditions under which the call runs establish that the receiver is naive
            from ..astutil import path_conditions
            from ..paths import path_formula, implies, parse
            st = c
            while st is not None and not isinstance(st, ast.stmt):
                st = getattr(st, "_parent", None)
            guarded = False
            if st is not None and fn is not None:
                conds = list(path_conditions(st, fn))
                # a conditional expression `x if x.tzinfo is not None else x.replace(…)` guards its own arms
                x = c
                while x is not None and x is not st:
                    par = getattr(x, "_parent", None)
                    if isinstance(par, ast.IfExp):
                        if x is par.body:
                            conds.append((par.test, True))
                        elif x is par.orelse:
                            conds.append((par.test, False))
                    x = par
                try:
                    guarded = implies(path_formula(conds, fn), parse(f"{recv}.tzinfo is None"))
                except SyntaxError:
                    guarded = False
            q = fn.name if fn is not None else "<module>"
            if not guarded:
                res.findings.append(Finding(
                    "R-TZREPLACE", f"{rel}:{q} :: {norm(c)[:80]}",
                    f"{q}: `{norm(c)[:70]}` changes the time zone label of `{recv}` without converting the instant and is not "
                    f"guarded by `{recv}.tzinfo is None`: an aware date given in another zone is shifted by its UTC offset "
                    f"(or a local-time index is compared with a UTC date)", rel, c.lineno, q))
            elif len(res.samples) < 3:
                res.samples.append({"site": f"{rel}:{int(c.lineno)} {q}", "call": norm(c)[:70], "verdict": "receiver tested naive"})
    res.floor = 1     # two sites today (min and max date of a naive index); one if they share a helper
    return res


# ---------------------------------------------------------------------------------------------- R-VALUESTORE (C07, C11, C18)
@rule("R-VALUESTORE")
def r_valuestore(E):
    pm = E.pm
    res = RuleResult("R-VALUESTORE", "only the explainable classes' own methods store into `.value`: a value rewritten from "
                                     "outside no longer is what its recorded operation on its recorded operands produces")
    own = {"ExplainableObject", "EmptyExplainableObject", "ExplainableQuantity", "ExplainableHourlyQuantities"}
    n_scanned = 0
    for mod, (rel, tree, src) in sorted(pm.modules.items()):
        for n in ast.walk(tree):
            if not isinstance(n, (ast.Assign, ast.AugAssign)):
                continue
            n_scanned += 1
            for t in (n.targets if isinstance(n, ast.Assign) else [n.target]):
                b = t
                while isinstance(b, ast.Subscript):
                    b = b.value
                if not (isinstance(b, ast.Attribute) and b.attr == "value"):
                    continue
                cls = fn = n
                while fn is not None and not isinstance(fn, ast.FunctionDef):
                    fn = getattr(fn, "_parent", None)
                while cls is not None and not isinstance(cls, ast.ClassDef):
                    cls = getattr(cls, "_parent", None)
                res.instances += 1
                if cls is not None and cls.name in own and isinstance(b.value, ast.Name) and b.value.id == "self":
                    continue
                q = (f"{cls.name}.{fn.name}" if cls is not None else fn.name) if fn is not None else "<module>"
                res.findings.append(Finding(
                    "R-VALUESTORE", f"{rel}:{q} :: {norm(n)[:80]}",
                    f"{q} stores into `{norm(b)}` from outside the explainable classes (`{norm(n)[:60]}`): the value is no "
                    f"longer the result of the operation recorded for it (and whatever shares its frame changes too)", rel,
                    n.lineno, q))
    res.floor = 4
    return res


# ---------------------------------------------------------------------------------------------- JSON loader / writers (C13)
@rule("R-JSON-LOAD")
def r_json_load(E):
    pm = E.pm
    res = RuleResult("R-JSON-LOAD", "the loader converts every saved attribute unconditionally within its kind branch "
                                    "(link, list of links, explainable value), creates objects from the sections of the "
                                    "*upgraded* dict, and resets every calculated attribute")
    rel, fn = pm.find_function(J2S, "json_to_system")
    wrappers = {"ListLinkedToModelingObj": "list of links", "ContextualModelingObjectAttribute": "link",
                "json_to_explainable_object": "explainable value"}
    # (the conversions may sit in module-level helpers of the loader: read where they are called from)
    from ..astutil import nodes_through_helpers as _nth_jl
    _conv_calls = [n_ for n_ in _nth_jl(fn, find_function=pm.function_finder(rel), depth=2) if isinstance(n_, ast.Call)]
    _seen_conv = set()
    for c in _conv_calls:
        nm = c.func.id if isinstance(c.func, ast.Name) else None
        if nm not in wrappers:
            continue
        if (nm, norm(c), getattr(c, "lineno", 0)) in _seen_conv:
            continue
        _seen_conv.add((nm, norm(c), getattr(c, "lineno", 0)))
        res.instances += 1
        # enclosing ifs up to the nearest for loop over attributes
        extra = []
        x = c
        while x is not None and x is not fn:
            par = getattr(x, "_parent", None)
            if isinstance(par, ast.For):
                break
            if isinstance(par, ast.If) and not any(x is g or any(y is x for y in ast.walk(g)) for g in [par.test]):
                # conjuncts of the test that are neither a kind test on the value (type(v) == …, isinstance(v, …)) nor
                # the exclusion of a bookkeeping name (key != "id", key not in (…)) restrict the conversion
                def _flat(e_):
                    # the atoms of the test (through and / or / not: the arm the conversion sits in may be the negated one)
                    if isinstance(e_, ast.BoolOp):
                        return [y for v_ in e_.values for y in _flat(v_)]
                    if isinstance(e_, ast.UnaryOp) and isinstance(e_.op, ast.Not) and isinstance(e_.operand, (ast.BoolOp, ast.UnaryOp)):
                        return _flat(e_.operand)
                    return [e_]
                conj = _flat(par.test)
                for cj in conj:
                    t = norm(cj)
                    # (a kind test *is* the conjunct — `type(v) == list`, `isinstance(v, dict)`, negated or not — not any
                    # expression that happens to contain one: `(found := [… if type(e) == str …])` tests the content)
                    cj0 = cj.operand if isinstance(cj, ast.UnaryOp) and isinstance(cj.op, ast.Not) else cj
                    kind_test = (isinstance(cj0, ast.Compare) and isinstance(cj0.left, ast.Call)
                                 and norm(cj0.left.func) == "type") or (
                        isinstance(cj0, ast.Call) and norm(cj0.func) in ("isinstance", "issubclass")) or (
                        isinstance(cj0, ast.Compare) and any(isinstance(y_, ast.Call) and norm(y_.func) == "type"
                                                             for y_ in cj0.comparators))
                    name_excl = isinstance(cj, ast.Compare) and len(cj.ops) == 1 and isinstance(cj.left, ast.Name) and (
                        (isinstance(cj.ops[0], (ast.Eq, ast.NotEq)) and isinstance(cj.comparators[0], ast.Constant)
                         and isinstance(cj.comparators[0].value, str)) or
                        (isinstance(cj.ops[0], (ast.In, ast.NotIn)) and isinstance(cj.comparators[0], (ast.List, ast.Tuple, ast.Set))
                         and all(isinstance(e, ast.Constant) for e in cj.comparators[0].elts)))
                    # `value in <table of loaded objects>`: a string is a link exactly when it is a known id
                    known_id = isinstance(cj, ast.Compare) and len(cj.ops) == 1 and isinstance(cj.ops[0], ast.In) \
                        and isinstance(cj.left, ast.Name) and not isinstance(cj.comparators[0], (ast.List, ast.Tuple, ast.Set))
                    if not kind_test and not name_excl and not known_id:
                        extra.append(t)
            x = par
        if extra:
            res.findings.append(Finding(
                "R-JSON-LOAD", f"{nm} conditional on {extra[0][:50]}",
                f"json_to_system only converts a saved {wrappers[nm]} when `{extra[0][:60]}`: otherwise the raw JSON value "
                f"(a plain list / id string / dict) stays on the loaded object — re-export raises or edits through it "
                f"bypass the update machinery", rel, c.lineno, "json_to_system"))
        elif len(res.samples) < 3:
            res.samples.append({"conversion": nm, "verdict": "unconditional within its kind branch"})
    # object creation reads the sections after the upgrade handlers ran
    from ..astutil import nodes_through_helpers
    def is_upg(n):
        # the loop over the versions — or the same fold written with reduce(lambda d, v: HANDLERS[v](d), range(…), d)
        mentions = lambda z: any(isinstance(x, ast.Name) and x.id == "VERSION_UPGRADE_HANDLERS" for x in ast.walk(z))
        if isinstance(n, ast.For) and mentions(n):
            return True
        return isinstance(n, (ast.Assign, ast.Expr)) and isinstance(n.value, ast.Call) \
            and norm(n.value.func) in ("reduce", "functools.reduce") and mentions(n)
    # (inside an extracted function the loop is positioned at the call that reaches it)
    upg = next((n for n in nodes_through_helpers(fn, find_function=pm.function_finder(rel), want=is_upg, depth=2)
                if is_upg(n)), None)
    _has_new = lambda st: any(isinstance(c, ast.Call) and isinstance(c.func, ast.Attribute) and c.func.attr == "__new__"
                              for c in nodes_through_helpers(st, find_function=pm.function_finder(rel), depth=2))
    creation = next((n for n in fn.body if isinstance(n, ast.For) and _has_new(n)), None)
    if creation is None:
        # the same loop written as a comprehension over the sections (`{key: build(…) for key in class_keys}`)
        for st in fn.body:
            comp = next((c for c in ast.walk(st) if isinstance(c, (ast.DictComp, ast.ListComp)) and _has_new(c)), None) \
                if isinstance(st, ast.Assign) else None
            if comp is not None:
                creation = ast.copy_location(ast.For(target=comp.generators[0].target, iter=comp.generators[0].iter,
                                                     body=[st], orelse=[]), st)
                break
    res.instances += 1
    if upg is None or creation is None:
        res.undecided.append("json_to_system: upgrade loop or creation loop not found")
    else:
        src_line = creation.lineno
        it = creation.iter
        if isinstance(it, ast.Name):
            defs = [n for n in ast.walk(fn) if isinstance(n, ast.Assign) and norm(n.targets[0]) == it.id]
            src_line = min(d.lineno for d in defs) if defs else creation.lineno
            it = defs[0].value if defs else it
        if fn.args.args[0].arg not in {x.id for x in ast.walk(it) if isinstance(x, ast.Name)}:
            res.undecided.append("json_to_system: creation loop does not iterate over system_dict")
        elif src_line < upg.lineno:
            res.findings.append(Finding(
                "R-JSON-LOAD", "sections listed before the upgrade",
                "json_to_system lists the class sections of the file before the version upgrade handlers have run: "
                "sections renamed by a handler (Hardware -> Device for 9.x files) are never created", rel, src_line,
                "json_to_system"))
        if "in efootprint_classes_dict" in norm(it):
            res.findings.append(Finding("R-JSON-LOAD", "unknown sections dropped",
                                        "sections whose class is unknown are silently skipped instead of failing", rel,
                                        src_line, "json_to_system"))
    # nothing read from the file before the upgrade is used after it (a list of sections, a count, a lookup table taken
    # from the 9.x layout misses whatever the handlers rename or add)
    if upg is not None:
        top = upg
        while getattr(top, "_parent", None) is not fn and getattr(top, "_parent", None) is not None:
            top = top._parent
        if top in fn.body:
            param = fn.args.args[0].arg
            after = fn.body[fn.body.index(top) + 1:]
            # (a name the upgrade itself rebinds — the dict being upgraded, under whatever name — is not a snapshot)
            rebound_after = {t.id for st in [top] + after for a in ast.walk(st) if isinstance(a, (ast.Assign, ast.For, ast.comprehension))
                             for t in ast.walk(a.targets[0] if isinstance(a, ast.Assign) else a.target) if isinstance(t, ast.Name)}
            for st in fn.body[:fn.body.index(top)]:
                for a in ast.walk(st):
                    if not (isinstance(a, ast.Assign) and any(isinstance(x, ast.Name) and x.id == param for x in ast.walk(a.value))):
                        continue
                    for t in a.targets:
                        if not isinstance(t, ast.Name) or t.id in rebound_after or t.id == param:
                            continue
                        res.instances += 1
                        use = next((x for st2 in after for x in ast.walk(st2)
                                    if isinstance(x, ast.Name) and x.id == t.id and isinstance(x.ctx, ast.Load)), None)
                        if use is not None:
                            res.findings.append(Finding(
                                "R-JSON-LOAD", f"{t.id} read before the upgrade, used after",
                                f"json_to_system computes `{t.id}` from the file ({norm(a.value)[:60]}) before the version "
                                f"upgrade handlers run and uses it afterwards (line {use.lineno}): for a 9.x file it "
                                f"describes the old layout (a 'Hardware' section, no 'Device' section), so whatever is "
                                f"driven by it skips the renamed objects", rel, a.lineno, "json_to_system"))
    # every loaded object is switched live: where the objects to activate come out of a generator of the module, each
    # `yield` sits in loops whose variables it hands out — a yield nested in a loop over something else (the object's
    # calculated attributes) yields the object once per element of that collection, and not at all when it is empty
    ff_load = pm.function_finder(rel)
    for c in [x for x in ast.walk(fn) if isinstance(x, ast.Call) and isinstance(x.func, ast.Name)]:
        g = ff_load(c.func.id)
        if g is None or not any(isinstance(y, ast.Yield) for y in ast.walk(g)):
            continue
        for y in [y for y in ast.walk(g) if isinstance(y, ast.Yield) and y.value is not None]:
            res.instances += 1
            handed = {x.id for x in ast.walk(y.value) if isinstance(x, ast.Name)}
            p_ = getattr(y, "_parent", None)
            while p_ is not None and p_ is not g:
                if isinstance(p_, ast.For):
                    tv = {x.id for x in ast.walk(p_.target) if isinstance(x, ast.Name)}
                    # (a loop that only leads to the objects — `for key, objs in d.items(): for obj in objs.values()` — is
                    # fine when an inner loop variable that is handed out iterates over its variable)
                    leads = any(isinstance(q, ast.For) and (tv & {x.id for x in ast.walk(q.iter) if isinstance(x, ast.Name)})
                                for q in ast.walk(p_) if q is not p_)
                    if not (tv & handed) and not leads:
                        res.findings.append(Finding(
                            "R-JSON-LOAD", f"{g.name} yields inside a loop over {norm(p_.iter)[:40]}",
                            f"{g.name} yields `{norm(y.value)[:40]}` inside `for {norm(p_.target)} in {norm(p_.iter)[:40]}`, a loop "
                            f"whose variable it does not hand out: an object is yielded once per element of that collection — "
                            f"not at all when it is empty (classes without calculated attributes are never switched live: "
                            f"edits on their loaded objects recompute nothing)", rel, y.lineno, g.name))
                p_ = getattr(p_, "_parent", None)
    # calculated attributes reset
    res.instances += 1
    reset = [n for n in nodes_through_helpers(fn, find_function=pm.function_finder(rel), depth=2)
             if isinstance(n, ast.For) and "calculated_attributes" in norm(n.iter)]
    if not reset or not any("EmptyExplainableObject()" in norm(c) for r_ in reset for c in _calls(r_)
                            if "calculated_attributes" in norm(r_.iter).split("(")[0] or norm(r_.iter).endswith("calculated_attributes")):
        res.findings.append(Finding("R-JSON-LOAD", "calculated attributes not reset",
                                    "loaded objects no longer get an empty placeholder for each calculated attribute", rel,
                                    fn.lineno, "json_to_system"))
    res.floor = 5
    return res


@rule("R-JSON-SIB")
def r_json_sib(E):
    pm = E.pm
    res = RuleResult("R-JSON-SIB", "all to_json implementations reached through the one dispatch "
                                   "`value.to_json(<save calculated attributes>)` agree on what their first positional "
                                   "parameter means; scalar values are written without rounding, hourly values with the "
                                   "documented 3 decimals")
    sigs = {}
    for cn, ci in sorted(pm.classes.items()):
        if pm.is_model(cn):
            continue
        fn = next((f for f in pm.own_methods(cn) if f.name == "to_json"), None)
        if fn is None:
            continue
        params = [a.arg for a in fn.args.args[1:]]
        sigs[cn] = (params, fn, ci.path)
    first = {}
    for cn, (params, fn, path) in sigs.items():
        res.instances += 1
        first[cn] = params[0] if params else None
    common = max(set(first.values()), key=list(first.values()).count) if first else None
    # dispatch sites pass the flag positionally?
    positional = False
    for suffix, q in ((MO, "ModelingObject.to_json"), ("abstract_modeling_classes/explainable_object_dict.py",
                                                       "ExplainableObjectDict.to_json")):
        rel, fn = pm.find_function(suffix, q)
        for c in _calls(fn):
            if isinstance(c.func, ast.Attribute) and c.func.attr == "to_json" and c.args:
                positional = True
    for cn, p in sorted(first.items()):
        if p != common and positional:
            params, fn, path = sigs[cn]
            res.findings.append(Finding(
                "R-JSON-SIB", f"{cn}.to_json first parameter {p}",
                f"{cn}.to_json({', '.join(params)}) takes `{p}` first while its siblings take `{common}`, and the writers "
                f"call `value.to_json(flag)` positionally: the save-calculated-attributes flag lands in `{p}` (hourly "
                f"inputs are saved rounded to 0 or 1 decimals instead of 3, and their graph data is never saved)", path,
                fn.lineno, f"{cn}.to_json"))
    # lossless scalar writer; documented rounding of the hourly writer
    # (the writer of a class: the to_json it has or inherits, with the hooks of the class it calls)
    def writer_of(cn):
        owner, f = pm.find_method(cn, "to_json")
        if f is None:
            raise AnalysisError(f"{cn}.to_json vanished")
        fns, todo = [f], [f]
        finder = pm.helper_finder(cn)
        while todo:
            g = todo.pop()
            for c in ast.walk(g):
                if isinstance(c, ast.Call) and isinstance(c.func, ast.Attribute) and norm(c.func.value) in ("self", "super()"):
                    h = finder(c.func.attr) if norm(c.func.value) == "self" else None
                    if norm(c.func.value) == "super()":
                        oc = g._parent.name if isinstance(getattr(g, "_parent", None), ast.ClassDef) else None
                        for base in (pm.mro(oc)[1:] if oc else []):
                            h = next((b_ for b_ in pm.classes[base].node.body if isinstance(b_, ast.FunctionDef)
                                      and b_.name == c.func.attr), None) if base in pm.classes else None
                            if h is not None:
                                break
                    if h is not None and h not in fns and not is_property(h):
                        fns.append(h)
                        todo.append(h)
        return pm.classes[owner].path, f, fns
    rel, eq, eq_fns = writer_of("ExplainableQuantity")
    res.instances += 1
    for d in [n for f_ in eq_fns for n in ast.walk(f_) if isinstance(n, ast.Dict)]:
        for k, v in zip(d.keys, d.values):
            if isinstance(k, ast.Constant) and k.value == "value":
                # through the helpers the expression calls (same-class methods, package-level functions)
                lossy = [c for c in nodes_through_helpers(v, pm.helper_finder("ExplainableQuantity"),
                                                          find_function=pm.package_function_finder())
                         if isinstance(c, ast.Call) and (
                    (isinstance(c.func, ast.Name) and c.func.id in ("round", "int", "floor", "ceil", "trunc"))
                    or (isinstance(c.func, ast.Attribute) and c.func.attr in ("round", "floor", "ceil", "trunc", "rint")))]
                if lossy:
                    res.findings.append(Finding(
                        "R-JSON-SIB", "ExplainableQuantity.to_json rounds",
                        f"scalar inputs are written as `{norm(v)[:60]}`: an absolute rounding in the value's own unit "
                        f"(8.02e-13 s becomes 0) — the loaded model has other inputs than the saved one, although a second "
                        f"export gives the same JSON", rel, v.lineno, "ExplainableQuantity.to_json"))
    rel, hq, hq_fns = writer_of("ExplainableHourlyQuantities")
    res.instances += 1
    rds = []
    for f_ in hq_fns:
        dflt = {a.arg: d for a, d in zip(f_.args.args[-len(f_.args.defaults):], f_.args.defaults)} if f_.args.defaults else {}
        if "rounding_depth" in dflt:
            rds.append(dflt["rounding_depth"])
    if not rds or any(not isinstance(rd, ast.Constant) or not isinstance(rd.value, int) or rd.value < 3 for rd in rds):
        res.findings.append(Finding("R-JSON-SIB", "hourly rounding depth", "hourly values are no longer written with (at "
                                    "least) the documented 3 decimals by default", rel, hq.lineno, hq.name))
    # the list of links is written position by position: a list may hold the same object twice (a journey that goes through
    # the same step again), and an export that goes through a dict / set keyed by id writes it once
    if "ListLinkedToModelingObj" in pm.classes:
        lw = next((f for f in pm.own_methods("ListLinkedToModelingObj") if f.name == "to_json"), None)
        if lw is not None:
            res.instances += 1
            from ..astutil import fully_expanded as _fx_lw, substitute as _sub_lw
            lfinder = pm.helper_finder("ListLinkedToModelingObj")

            def through_props(e_, depth=0):
                if depth > 3:
                    return e_

                class P(ast.NodeTransformer):
                    def visit_Attribute(self, node):
                        self.generic_visit(node)
                        if isinstance(node.value, ast.Name) and node.value.id == "self" and isinstance(node.ctx, ast.Load):
                            h_ = lfinder(node.attr)
                            if h_ is not None and is_property(h_):
                                b_ = [b for b in h_.body if not (isinstance(b, ast.Expr) and isinstance(b.value, ast.Constant))]
                                if len(b_) == 1 and isinstance(b_[0], ast.Return) and b_[0].value is not None:
                                    from ..astutil import clone as _cl_lw
                                    return through_props(_cl_lw(b_[0].value), depth + 1)
                        return node
                return P().visit(e_)
            for r_ in [n for n in ast.walk(lw) if isinstance(n, ast.Return) and n.value is not None]:
                from ..astutil import clone as _cl_lw2
                ex = through_props(_cl_lw2(_fx_lw(r_.value, lw)))
                collapsing = [x for x in ast.walk(ex) if isinstance(x, (ast.DictComp, ast.SetComp, ast.Set))
                              or (isinstance(x, ast.Call) and norm(x.func) in ("set", "frozenset", "dict.fromkeys", "dict"))]
                if collapsing:
                    res.findings.append(Finding(
                        "R-JSON-SIB", "ListLinkedToModelingObj.to_json goes through a keyed collection",
                        f"ListLinkedToModelingObj.to_json returns `{norm(ex)[:90]}`: the ids pass through "
                        f"`{norm(collapsing[0])[:50]}`, which keeps one entry per id — a list that holds the same object twice "
                        f"(uj_steps = [browse, pay, browse]) is saved with one occurrence and loaded back shorter",
                        pm.path_of("ListLinkedToModelingObj"), r_.lineno, "ListLinkedToModelingObj.to_json"))
    # a date written under a key with strftime(F) is read back from that key with strptime(…, F): same format string (a
    # named constant is read through its definition)
    def _const_str(e, tree_):
        if isinstance(e, ast.Constant) and isinstance(e.value, str):
            return e.value
        if isinstance(e, ast.Name):
            for st_ in tree_.body:
                if isinstance(st_, ast.Assign) and len(st_.targets) == 1 and isinstance(st_.targets[0], ast.Name) \
                        and st_.targets[0].id == e.id and isinstance(st_.value, ast.Constant) and isinstance(st_.value.value, str):
                    return st_.value.value
        return None
    written, read = {}, {}
    for mod_, (rel_, tree_, _s) in sorted(pm.modules.items()):
        for d_ in [n for n in ast.walk(tree_) if isinstance(n, ast.Dict)]:
            for k_, v_ in zip(d_.keys, d_.values):
                if isinstance(k_, ast.Constant) and isinstance(k_.value, str):
                    for c_ in [x for x in ast.walk(v_) if isinstance(x, ast.Call) and isinstance(x.func, ast.Attribute)
                               and x.func.attr == "strftime" and x.args]:
                        written.setdefault(k_.value, []).append((rel_, c_, _const_str(c_.args[0], tree_)))
        for c_ in [x for x in ast.walk(tree_) if isinstance(x, ast.Call) and isinstance(x.func, ast.Attribute)
                   and x.func.attr == "strptime" and len(x.args) == 2]:
            from ..astutil import fully_expanded as _fx_df
            host_ = c_
            while host_ is not None and not isinstance(host_, ast.FunctionDef):
                host_ = getattr(host_, "_parent", None)
            src_ = _fx_df(c_.args[0], host_) if host_ is not None else c_.args[0]
            keys_ = [x.slice.value for x in ast.walk(src_) if isinstance(x, ast.Subscript) and isinstance(x.slice, ast.Constant)
                     and isinstance(x.slice.value, str)]
            for k_ in keys_:
                read.setdefault(k_, []).append((rel_, c_, _const_str(c_.args[1], tree_)))
    for k_ in sorted(set(written) & set(read)):
        res.instances += 1
        for (rw, cw, fw) in written[k_]:
            for (rr, cr, fr) in read[k_]:
                if fw is not None and fr is not None and fw != fr:
                    res.findings.append(Finding(
                        "R-JSON-SIB", f"date format of '{k_}'",
                        f"the writer emits '{k_}' with strftime('{fw}') and the reader parses it with strptime(…, '{fr}'): a "
                        f"date whose day and month differ is read back as another date (5 March as 3 May), or refused when the "
                        f"day is above 12", rr, cr.lineno, "strptime"))
    res.samples = [{"class": cn, "first_positional_parameter": p} for cn, p in sorted(first.items())]
    res.floor = 6
    return res


# ---------------------------------------------------------------------------------------------- R-NOOP (C16, C01)
@rule("R-NOOP")
def r_noop(E):
    pm = E.pm
    res = RuleResult("R-NOOP", "ModelingUpdate skips a change only when the new value *equals* the old one (`==`: for lists "
                               "same elements, same order, same multiplicity); any coarser test drops real edits "
                               "(permutations, duplicate-only changes)")
    rel, fn = pm.find_function(MU, "ModelingUpdate.parse_changes_list")
    # the skip decision: inside the loop over the changes, the `if` that records the loop's index (or the change
    # itself) in a list of entries to drop — the list that a later `del` loop consumes
    dropped = set()
    for d in [n for n in ast.walk(fn) if isinstance(n, ast.Delete)]:
        lp = d
        while lp is not None and not isinstance(lp, ast.For):
            lp = getattr(lp, "_parent", None)
        if lp is not None:
            dropped |= {x.id for x in ast.walk(lp.iter) if isinstance(x, ast.Name)}
    marks = [n for n in ast.walk(fn) if isinstance(n, ast.Expr) and isinstance(n.value, ast.Call)
             and isinstance(n.value.func, ast.Attribute) and n.value.func.attr == "append"
             and isinstance(n.value.func.value, ast.Name) and n.value.func.value.id in dropped]
    res.instances += 1
    keep_form = False
    if len(marks) != 1:
        # the other way round: the changes to *keep* are collected and written back (`self.changes_list[:] = kept`); a
        # change is skipped exactly when the keep mark is not reached
        kept = set()
        for a_ in ast.walk(fn):
            if isinstance(a_, ast.Assign) and isinstance(a_.value, ast.Name) and any(
                    norm(t) in ("self.changes_list", "self.changes_list[:]") for t in a_.targets):
                kept.add(a_.value.id)
        marks = [n for n in ast.walk(fn) if isinstance(n, ast.Expr) and isinstance(n.value, ast.Call)
                 and isinstance(n.value.func, ast.Attribute) and n.value.func.attr == "append"
                 and isinstance(n.value.func.value, ast.Name) and n.value.func.value.id in kept]
        keep_form = len(marks) == 1
    if len(marks) != 1:
        res.undecided.append("parse_changes_list: skip decision not found")
        return res
    # the two names bound to a change by the loop: `old_value, new_value = self.changes_list[index]`
    pair = None
    for a_ in ast.walk(fn):
        if isinstance(a_, (ast.Assign, ast.For)):
            t = a_.targets[0] if isinstance(a_, ast.Assign) else a_.target
            # for index, (old, new) in enumerate(self.changes_list)
            if isinstance(a_, ast.For) and isinstance(t, ast.Tuple) and len(t.elts) == 2 and isinstance(t.elts[1], ast.Tuple) \
                    and isinstance(a_.iter, ast.Call) and norm(a_.iter.func) == "enumerate":
                t = t.elts[1]
            if isinstance(t, ast.Tuple) and len(t.elts) == 2 and all(isinstance(x, ast.Name) for x in t.elts):
                src = a_.value if isinstance(a_, ast.Assign) else a_.iter
                if "changes_list" in norm(src) or (isinstance(src, ast.Name) and any(
                        isinstance(l, ast.For) and src.id in {y.id for y in ast.walk(l.target) if isinstance(y, ast.Name)}
                        and "changes_list" in norm(l.iter) for l in ast.walk(fn))):
                    pair = [t.elts[0].id, t.elts[1].id]
    if pair is None:
        res.undecided.append("parse_changes_list: the (old, new) pair of a change is not bound by a tuple assignment")
        return res
    # the conditions under which a change is marked for dropping (within one iteration, raise guards aside) must
    # amount to `old == new`
    from ..astutil import path_conditions, positive_atoms
    from ..paths import path_formula, implies, parse
    conds = [(t, pol) for t, pol in path_conditions(marks[0], fn)]
    F = path_formula(conds, fn)
    eq = parse(f"{pair[0]} == {pair[1]}")
    if keep_form:
        # enclosing tests only (an earlier guard that raised did not skip the change, it refused the update)
        enc, x_ = [], marks[0]
        while x_ is not None and x_ is not fn:
            par_ = getattr(x_, "_parent", None)
            if isinstance(par_, ast.If):
                if any(x_ is b for b in par_.body):
                    enc.append((par_.test, True))
                elif any(x_ is b for b in par_.orelse):
                    enc.append((par_.test, False))
            x_ = par_
        conds = enc
        F = ("not", path_formula(enc, fn))
    if not implies(F, eq):
        true, false = positive_atoms(conds)
        cand = [t for t in true + false if any(isinstance(x, ast.Name) and x.id in pair for x in ast.walk(t))
                and not (isinstance(t, ast.Call) and norm(t.func) == "isinstance")
                and not (isinstance(t, ast.Compare) and isinstance(t.ops[0], (ast.Is, ast.IsNot)))]
        # a decision taken through a local flag (`unchanged = …` on two arms; `if unchanged:`): look at what it is set to
        for t in true + false:
            if isinstance(t, ast.Name):
                for d in ast.walk(fn):
                    if isinstance(d, ast.Assign) and any(isinstance(x, ast.Name) and x.id == t.id for x in d.targets):
                        v = d.value
                        is_eq = isinstance(v, ast.Compare) and len(v.ops) == 1 and isinstance(v.ops[0], ast.Eq) \
                            and {norm(v.left), norm(v.comparators[0])} == set(pair)
                        if not is_eq:
                            cand.append(v)
        bad = cand[-1] if cand else marks[0]
        coarse = any(isinstance(x, ast.Compare) and isinstance(x.ops[0], (ast.In, ast.NotIn)) or
                     (isinstance(x, ast.Call) and norm(x.func) in ("len", "set", "all", "any", "sorted")) for x in ast.walk(bad))
        if coarse:
            res.findings.append(Finding(
                "R-NOOP", "skip test coarser than equality",
                f"parse_changes_list skips a change when `{norm(bad)[:90]}`: that holds for lists that differ in order "
                f"or multiplicity, so `uj.uj_steps = [s3, s1, s2]` or `step.jobs = [j1, j1]` is silently ignored (forward "
                f"links, reverse look-ups and footprints keep the old list)", rel, bad.lineno, fn.name))
        else:
            res.undecided.append(f"parse_changes_list: skip test `{norm(bad)[:60]}` not recognised")
    # the `==` of that test is, for list links, the built-in list's: element-wise, order and multiplicity sensitive.
    # An __eq__ of the link-list class that compares sets / sorted ids / lengths makes the same test coarser
    res.instances += 1
    for cn in ("ListLinkedToModelingObj",):
        if cn not in pm.classes:
            res.undecided.append(f"{cn} vanished")
            continue
        for k in pm.mro(cn):
            if k in ("ObjectLinkedToModelingObj", "ModelingObject") or k not in pm.classes:
                continue
            for f in pm.own_methods(k):
                if f.name in ("__eq__", "__ne__"):
                    coarse = any(isinstance(x, (ast.Set, ast.SetComp)) or (isinstance(x, ast.Call) and norm(x.func) in (
                        "set", "frozenset", "sorted", "len", "any", "all", "Counter")) for x in ast.walk(f))
                    if coarse:
                        res.findings.append(Finding(
                            "R-NOOP", f"{k}.{f.name} coarser than list equality",
                            f"{k}.{f.name} compares link lists through sets / sorted ids / lengths: ModelingUpdate's "
                            f"`old_value == new_value` no-op test then holds for lists that differ in order or "
                            f"multiplicity, and such edits (`uj.uj_steps = [s3, s1, s2]`, `step.jobs = [j1, j1]`, appending "
                            f"an element already present) are silently dropped", pm.classes[k].path, f.lineno, f"{k}.{f.name}"))
                    else:
                        res.undecided.append(f"{k}.{f.name}: equality of link lists overridden, semantics not recognised")
    # … and for values, the `==` of the value classes: it must *answer* for two values of the same class. An __eq__ that
    # raises on a same-class operand (two hourly series of different lengths) turns the edit that replaces one by the
    # other into an error instead of a change
    from ..paths import enumerate_paths as _ep2, path_formula as _pf2, consistent as _cons2, parse as _parse2
    for cn in sorted(pm.classes):
        if "ExplainableObject" not in pm.mro(cn):
            continue
        f = next((m for m in pm.own_methods(cn) if m.name == "__eq__"), None)
        if f is None or len(f.args.args) < 2:
            continue
        res.instances += 1
        other = f.args.args[1].arg
        same = _parse2(f"isinstance({other}, {cn})")
        for path in _ep2(f, lambda n: isinstance(n, ast.Raise)):
            if path.end != "raise":
                continue
            pf = _pf2(path.conds, f)
            from ..paths import implies as _imp2
            if _imp2(pf, same):
                res.findings.append(Finding(
                    "R-NOOP", f"{cn}.__eq__ raises for a {cn}",
                    f"{cn}.__eq__ raises on a path where the other operand is a {cn} too: ModelingUpdate's no-op test "
                    f"`old_value == new_value` then refuses the edit that replaces one such value by another (a traffic "
                    f"series replaced by a longer one: `ValueError: … values of same length`) instead of applying it",
                    pm.classes[cn].path, path.stmts[-1].lineno if path.stmts else f.lineno, f"{cn}.__eq__"))
                break
    res.floor = 4
    return res


# ---------------------------------------------------------------------------------------------- R-RULE-TXN (C15)
@rule("R-RULE-TXN")
def r_rule_txn(E):
    pm = E.pm
    res = RuleResult("R-RULE-TXN", "an update rule that can refuse (raise) does so before it assigns its attribute: a value "
                                   "installed just before the raise is not among the values the failed update puts back")
    for (c, x), cx in E.contexts().items():
        if cx is None:
            continue
        owner, fn = pm.find_method(c, "update_" + x)
        fns = {(owner, fn.name): (owner, fn)}

        def writes_of(f):
            return [n for n in ast.walk(f) if isinstance(n, ast.Assign) and any(
                isinstance(t, ast.Attribute) and isinstance(t.value, ast.Name) and t.value.id == "self" and t.attr == x
                for t in n.targets)]

        def may_raise(m, depth=3, seen=()):
            """the method self.<m> of class c contains a raise statement, itself or through the self-methods it calls"""
            o2, f2 = pm.find_method(c, m)
            if f2 is None or m in seen:
                return False
            if any(isinstance(n, ast.Raise) for n in ast.walk(f2)):
                return True
            return depth > 0 and any(
                isinstance(n, ast.Call) and isinstance(n.func, ast.Attribute) and isinstance(n.func.value, ast.Name)
                and n.func.value.id == "self" and may_raise(n.func.attr, depth - 1, seen + (m,)) for n in ast.walk(f2))

        def raising_call(n):
            return isinstance(n, ast.Call) and isinstance(n.func, ast.Attribute) and isinstance(n.func.value, ast.Name) \
                and n.func.value.id == "self" and may_raise(n.func.attr)

        for q in set(cx.calls):
            k, m = q.split(".", 1)
            if k in pm.classes:
                o2, f2 = pm.find_method(k, m)
                if f2 is not None and (any(isinstance(n, ast.Raise) for n in ast.walk(f2)) or writes_of(f2)):
                    fns[(k, m)] = (k, f2)
        for (k, m), (o, f) in fns.items():
            writes = writes_of(f)
            raises = [n for n in ast.walk(f) if isinstance(n, ast.Raise) or raising_call(n)]
            if not raises or not writes:
                continue
            res.instances += 1
            # a path on which the attribute is assigned and a raise — the function's own or one inside a method of the
            # object that it calls — is reached afterwards
            from ..paths import enumerate_paths
            wset = {id(w) for w in writes}
            rset = {id(r) for r in raises}
            early = None
            for path in enumerate_paths(f, lambda n: id(n) in rset or id(n) in wset):
                seen_write = None
                for st in path.stmts:
                    ys = list(ast.walk(st))
                    # within one statement the call is evaluated before the assignment it feeds
                    if seen_write is not None and any(id(y) in rset for y in ys):
                        early = (seen_write, st)
                        break
                    if seen_write is None and any(id(y) in wset for y in ys):
                        seen_write = st
                if early:
                    break
            if early:
                key = f"{k}.{m} assigns self.{x} before raising"
                if not any(fd.key == key for fd in res.findings):
                    res.findings.append(Finding(
                        "R-RULE-TXN", key,
                        f"{k}.{m} assigns self.{x} (line {int(early[0].lineno)}) and validates afterwards (raise at line "
                        f"{int(early[1].lineno)}): when the edit is refused the invalid value stays installed — it is not in the "
                        f"list of recomputed values the failed update restores — and the next edit computes from it",
                        pm.path_of(k), early[0].lineno, f"{k}.{m}"))
    res.floor = 5
    return res


def _exclusive(a, b, fn):
    """a and b sit on different arms of one if/else (cannot both execute)"""
    def chain(n):
        out = []
        x = n
        while x is not None and x is not fn:
            par = getattr(x, "_parent", None)
            if isinstance(par, ast.If):
                out.append((id(par), "body" if any(x is s or any(y is x for y in ast.walk(s)) for s in par.body) else "orelse"))
            x = par
        return dict(out)
    ca, cb = chain(a), chain(b)
    return any(k in cb and cb[k] != v for k, v in ca.items())


# ---------------------------------------------------------------------------------------------- R-ATTACH (C08, C05, C16)
def _smc_arg_texts(c, tree):
    """texts of the two arguments of a set_modeling_obj_container call; `(*PAIR)` with PAIR a module-level constant pair
    (`EMPTY_SLOT = Slot(None, None)`) reads as its two members, any other unpacked pair as two unknown arguments"""
    if len(c.args) == 1 and isinstance(c.args[0], ast.Starred) and not c.keywords:
        v = c.args[0].value
        if isinstance(v, ast.Name) and tree is not None:
            d_ = next((st_.value for st_ in tree.body if isinstance(st_, ast.Assign) and len(st_.targets) == 1
                       and isinstance(st_.targets[0], ast.Name) and st_.targets[0].id == v.id), None)
            if isinstance(d_, ast.Call) and len(d_.args) == 2 and not d_.keywords:
                return [norm(a) for a in d_.args]
            if isinstance(d_, (ast.Tuple, ast.List)) and len(d_.elts) == 2:
                return [norm(a) for a in d_.elts]
        return ["<unpacked>", "<unpacked>"]
    return [norm(a) for a in c.args] + [norm(k.value) for k in c.keywords]


@rule("R-ATTACH")
def r_attach(E):
    pm = E.pm
    res = RuleResult("R-ATTACH", "wherever one value replaces another in a model object, the old value is detached before "
                                 "the new one is attached (both share one identifier and the ancestors' child lists are "
                                 "de-duplicated by identifier), and the old value is detached whatever its kind")
    sites = [("abstract_modeling_classes/object_linked_to_modeling_obj.py",
              "ObjectLinkedToModelingObj.replace_in_mod_obj_container_without_recomputation"),
             (MO, "ModelingObject.__setattr__")]
    for suffix, q in sites:
        rel, fn = pm.find_function(suffix, q)
        res.instances += 1
        from ..astutil import calls_through_helpers, source_order
        is_smc = lambda c: isinstance(c.func, ast.Attribute) and c.func.attr == "set_modeling_obj_container"
        allc = calls_through_helpers(fn, pm.helper_finder(q.split(".")[0]), want=is_smc, depth=2)
        _rel_t, _tree_t = pm.module_tree(suffix)

        def _smc_args(c):
            # set_modeling_obj_container(*PAIR): a module-level constant pair (`EMPTY_SLOT = Slot(None, None)`) reads as its
            # two members, any other unpacked pair as two unknown arguments
            if len(c.args) == 1 and isinstance(c.args[0], ast.Starred):
                v = c.args[0].value
                if isinstance(v, ast.Name):
                    d_ = next((st_.value for st_ in _tree_t.body if isinstance(st_, ast.Assign) and len(st_.targets) == 1
                               and isinstance(st_.targets[0], ast.Name) and st_.targets[0].id == v.id), None)
                    if isinstance(d_, ast.Call) and len(d_.args) == 2 and not d_.keywords:
                        return [norm(a) for a in d_.args]
                    if isinstance(d_, (ast.Tuple, ast.List)) and len(d_.elts) == 2:
                        return [norm(a) for a in d_.elts]
                return ["<unpacked>", "<unpacked>"]
            return [norm(a) for a in c.args]
        det = [c for c in allc if is_smc(c) and _smc_args(c) == ["None", "None"]]
        att = [c for c in allc if is_smc(c) and _smc_args(c) != ["None", "None"] and len(_smc_args(c)) == 2]
        if not det or not att:
            res.findings.append(Finding("R-ATTACH", f"{q} detach/attach", f"{q} no longer detaches the replaced value and "
                                        f"attaches the new one", rel, fn.lineno, q))
            continue
        order = {id(c): i for i, c in enumerate(allc)}
        if order[id(det[0])] > order[id(att[0])]:
            res.findings.append(Finding(
                "R-ATTACH", f"{q} attaches before detaching",
                f"{q} attaches the new value before detaching the old one: both have the same id, so each common ancestor "
                f"skips the new value as a duplicate child and then drops the only entry when the old one is detached — the "
                f"dependency ends up listed on neither end", rel, att[0].lineno, q))
        # the detach is not restricted to some kinds of value
        g = getattr(getattr(det[0], "_parent", None), "_parent", None)
        if isinstance(g, ast.If):
            t = g.test
            extra = isinstance(t, ast.BoolOp) and isinstance(t.op, ast.And) and any(
                isinstance(v, ast.UnaryOp) and isinstance(v.op, ast.Not) and "isinstance" in norm(v) for v in t.values)
            if extra:
                res.findings.append(Finding(
                    "R-ATTACH", f"{q} detach restricted",
                    f"{q} only detaches the previous value when `{norm(t)[:80]}`: a previous value of the excluded kind "
                    f"(an empty result that has ancestors) stays registered as child of its ancestors after it was "
                    f"replaced, and the replacement is refused as a duplicate", rel, g.lineno, q))
    # every implementation of the replace primitive (the base one and its overrides): each path that does not raise
    # either delegates to super() or detaches the replaced value and attaches the new one *after* that (an attach that
    # only happens before the detach — through dict.__setitem__ — is undone by the detach: both values share one id)
    from ..paths import enumerate_paths as _ep
    from ..astutil import source_order as _so
    for cn in sorted(pm.classes):
        f = next((m for m in pm.own_methods(cn) if m.name == "replace_in_mod_obj_container_without_recomputation"), None)
        if f is None:
            continue
        # (the primitive split into steps of the class — check, store, hand over — reads as the method it was)
        from ..astutil import inlined_view as _iv_r
        f = _iv_r(f, lambda name, _c=cn: (pm.find_method(_c, name)[1] if name not in (
            "replace_in_mod_obj_container_without_recomputation", "set_modeling_obj_container") else None), rounds=2, max_body=40)
        res.instances += 1
        newp = f.args.args[1].arg if len(f.args.args) > 1 else "new_value"
        is_smc = lambda c: isinstance(c, ast.Call) and isinstance(c.func, ast.Attribute) and c.func.attr in (
            "set_modeling_obj_container", "replace_in_mod_obj_container_without_recomputation")
        rank = _so(f)
        from ..astutil import names_behind
        for path in _ep(f, is_smc):
            if path.end == "raise":
                continue
            calls = sorted([c for c in path.calls() if is_smc(c)], key=lambda c: rank.get(id(c), 0))
            if any(c.func.attr == "replace_in_mod_obj_container_without_recomputation" and norm(c.func.value) == "super()"
                   for c in calls):
                continue
            _tree_p = pm.module_tree(pm.path_of(cn))[1] if cn in pm.classes else None
            dets = [c for c in calls if c.func.attr == "set_modeling_obj_container" and _smc_arg_texts(c, _tree_p) == ["None", "None"]
                    and norm(c.func.value) == f.args.args[0].arg]
            atts = [c for c in calls if c.func.attr == "set_modeling_obj_container" and len(_smc_arg_texts(c, _tree_p)) == 2
                    and _smc_arg_texts(c, _tree_p) != ["None", "None"]
                    and newp in names_behind(c.func.value, f)]
            if not dets or not any(rank[id(a)] > rank[id(dets[-1])] for a in atts):
                cond = " and ".join(("" if pol else "not ") + "(" + norm(t)[:50] + ")" for t, pol in path.conds)
                res.findings.append(Finding(
                    "R-ATTACH", f"{cn}.replace_in_mod_obj_container_without_recomputation path without re-attach",
                    f"{cn}.replace_in_mod_obj_container_without_recomputation has a path (`{cond[:140]}`) that does not end "
                    f"with the new value being attached after the replaced one was detached: old and new value share one "
                    f"id, so the detach removes the new value's registration on the common ancestors and nothing puts it "
                    f"back — edits of those ancestors no longer reach it", pm.path_of(cn), f.lineno,
                    f"{cn}.replace_in_mod_obj_container_without_recomputation"))
                break
    # all or nothing: the attach primitives refuse a value that is already attached to another object (a raise under a
    # test on the value's own container). The replace primitive calls them on the new value *after* it has stored it and
    # detached the old one, so that refusal must be established before its first mutation — otherwise the refused edit
    # leaves the new value installed and the old one detached, and the rollback (which goes through the new value's
    # container) puts the old value into the *other* object
    from ..astutil import fully_expanded as _fx2
    refusing = []
    for cn in sorted(pm.classes):
        if "ObjectLinkedToModelingObj" not in pm.mro(cn) and cn != "ObjectLinkedToModelingObj":
            continue
        m = next((x for x in pm.own_methods(cn) if x.name == "set_modeling_obj_container"), None)
        if m is None:
            continue
        for r in [x for x in ast.walk(m) if isinstance(x, ast.Raise)]:
            g = getattr(r, "_parent", None)
            while g is not None and not isinstance(g, ast.If):
                g = getattr(g, "_parent", None)
            if g is not None and f"{m.args.args[0].arg}.modeling_obj_container" in norm(g.test) \
                    and "is not None" in norm(g.test):
                refusing.append(cn)
    rel, f = pm.find_function("abstract_modeling_classes/object_linked_to_modeling_obj.py",
                              "ObjectLinkedToModelingObj.replace_in_mod_obj_container_without_recomputation")
    from ..astutil import inlined_view as _iv_r2
    f = _iv_r2(f, lambda name: (pm.find_method("ObjectLinkedToModelingObj", name)[1] if name not in (
        "replace_in_mod_obj_container_without_recomputation", "set_modeling_obj_container") else None), rounds=2, max_body=40)
    res.instances += 1
    newp = f.args.args[1].arg if len(f.args.args) > 1 else "new_value"
    # a check of the class asked of the *new* value (`new_value.check_not_linked_elsewhere(container)`) reads as its body
    # with the new value in place of self
    from ..astutil import helper_view as _hv_r2, substitute_stmt as _ss_r2, set_parents as _sp_r2

    def _splice_checks(stmts):
        out_ = []
        for st_ in stmts:
            for fld_ in ("body", "orelse", "finalbody"):
                sub_ = getattr(st_, fld_, None)
                if isinstance(sub_, list) and sub_ and isinstance(sub_[0], ast.stmt):
                    setattr(st_, fld_, _splice_checks(sub_))
            c_ = st_.value if isinstance(st_, ast.Expr) and isinstance(st_.value, ast.Call) else None
            if c_ is not None and isinstance(c_.func, ast.Attribute) and isinstance(c_.func.value, ast.Name) \
                    and c_.func.value.id == newp and c_.func.attr != "set_modeling_obj_container":
                h_ = pm.find_method("ObjectLinkedToModelingObj", c_.func.attr)[1]
                if h_ is not None and h_.args.args and not any(isinstance(x, ast.Return) and x.value is not None for x in ast.walk(h_)) \
                        and len(h_.body) <= 12:
                    hv_ = _hv_r2(h_, c_)
                    me_ = h_.args.args[0].arg
                    out_ += [_ss_r2(b_, {me_: ast.Name(id=newp, ctx=ast.Load())}) for b_ in hv_.body
                             if not (isinstance(b_, ast.Expr) and isinstance(b_.value, ast.Constant))]
                    continue
            out_.append(st_)
        return out_
    f.body = _splice_checks(f.body)
    _sp_r2(f)
    rank = _so(f)

    def is_mutation(n):
        if isinstance(n, ast.Assign) and any(isinstance(t, ast.Subscript) for t in n.targets):
            return True
        return isinstance(n, ast.Call) and isinstance(n.func, ast.Attribute) and n.func.attr == "set_modeling_obj_container"
    muts = [n for n in ast.walk(f) if is_mutation(n)]
    if refusing and muts:
        first = min(rank.get(id(n), 10 ** 9) for n in muts)
        pre = False
        for r in [x for x in ast.walk(f) if isinstance(x, ast.Raise) and rank.get(id(x), 10 ** 9) < first]:
            g = getattr(r, "_parent", None)
            while g is not None and not isinstance(g, ast.If):
                g = getattr(g, "_parent", None)
            if g is None:
                continue
            t = norm(_fx2(g.test, f))
            if newp in t and "modeling_obj_container" in t:
                pre = True
        if not pre:
            res.findings.append(Finding(
                "R-ATTACH", "replace primitive refuses after it has mutated",
                f"replace_in_mod_obj_container_without_recomputation stores `{newp}` and detaches the replaced value before "
                f"it calls {newp}.set_modeling_obj_container(...), which refuses ({', '.join(sorted(set(refusing)))}: raise "
                f"when the value is already attached to another object). `b.x = a.x` is refused with that error but leaves "
                f"b.x holding a's value and b's old value detached; the rollback then goes through the new value's container "
                f"and installs b's old value in *a*. The refusal has to be tested on `{newp}.modeling_obj_container` before "
                f"the first store", rel, f.lineno, "ObjectLinkedToModelingObj.replace_in_mod_obj_container_without_recomputation"))
    # the attach primitive itself: every path that attaches (new container not None) registers the value on each of
    # its direct ancestors, every path that had a container deregisters first — no early exit in between (the
    # replace primitive relies on the second, seemingly redundant, attach to re-register a dict entry whose twin with
    # the same id was just deregistered)
    rel, fn = pm.find_function(EB, "ExplainableObject.set_modeling_obj_container")
    # (split into steps — check, unregister, register — it reads as the method it was)
    from ..astutil import inlined_view as _iv_at
    fn = _iv_at(fn, pm.helper_finder("ExplainableObject"), rounds=2, max_body=20)
    res.instances += 1
    from ..paths import enumerate_paths, path_formula, consistent, parse
    ps = [a.arg for a in fn.args.args]

    def edge_loop(stmt, meth):
        return isinstance(stmt, ast.For) and "direct_ancestors_with_id" in norm(stmt.iter) and any(
            isinstance(c.func, ast.Attribute) and c.func.attr == meth for c in _calls(stmt))
    is_ev = lambda n: isinstance(n, ast.For) or (isinstance(n, ast.Call) and isinstance(n.func, ast.Attribute)
                                                 and n.func.attr == "set_modeling_obj_container")
    attaching = parse(f"{ps[1]} is not None")
    had = parse(f"{ps[0]}.modeling_obj_container is not None")
    for path in enumerate_paths(fn, is_ev):
        if path.end == "raise":
            continue
        pf = path_formula(path.conds, fn)
        adds = any(edge_loop(s_, "add_child_to_direct_children_with_id") for st in path.stmts for s_ in ast.walk(st))
        rems = any(edge_loop(s_, "remove_child_from_direct_children_with_id") for st in path.stmts for s_ in ast.walk(st))
        cond = " and ".join(("" if pol else "not ") + "(" + norm(t)[:60] + ")" for t, pol in path.conds)
        if consistent(pf, attaching) and not adds:
            res.findings.append(Finding(
                "R-ATTACH", "set_modeling_obj_container path without registration",
                f"ExplainableObject.set_modeling_obj_container has a path (`{cond[:150]}`) on which a value is attached "
                f"to a container without being registered as child of its direct ancestors: the dependency is then "
                f"listed on one end only and edits of the ancestor no longer reach it", rel, fn.lineno,
                "ExplainableObject.set_modeling_obj_container"))
            break
        if consistent(pf, had) and not rems:
            res.findings.append(Finding(
                "R-ATTACH", "set_modeling_obj_container path without deregistration",
                f"ExplainableObject.set_modeling_obj_container has a path (`{cond[:150]}`) on which a value that had a "
                f"container is re-attached / detached without being removed from its ancestors' children", rel,
                fn.lineno, "ExplainableObject.set_modeling_obj_container"))
            break
    # the list of links hands whatever container it is given — a container, or None when it leaves the model — on to every
    # wrapper it holds, on every normal path: a path that returns before the loop leaves the wrappers registered on their
    # objects as holders of a list that is gone (a simulated list that was reset, a list that was replaced)
    try:
        rel_l, fl = pm.find_function("abstract_modeling_classes/list_linked_to_modeling_obj.py",
                                     "ListLinkedToModelingObj.set_modeling_obj_container")
    except AnalysisError:
        fl = None
    if fl is not None:
        res.instances += 1
        from ..astutil import nodes_through_helpers as _nth_at
        finder_l = pm.helper_finder("ListLinkedToModelingObj")

        def hands_on(loop):
            # a call <element>.set_modeling_obj_container(self.modeling_obj_container, …) in the loop, possibly in a helper
            return any(isinstance(c_, ast.Call) and isinstance(c_.func, ast.Attribute) and c_.func.attr == "set_modeling_obj_container"
                       and c_.args and norm(c_.args[0]) == "self.modeling_obj_container"
                       for c_ in _nth_at(loop, finder_l, depth=2))
        loops_l = [n_ for n_ in ast.walk(fl) if isinstance(n_, ast.For) and norm(n_.iter) == "self" and hands_on(n_)]
        if not loops_l:
            res.undecided.append("ListLinkedToModelingObj.set_modeling_obj_container: the loop that hands the container on "
                                 "to the wrappers of the list was not recognised")
        else:
            L0 = loops_l[0]
            for path in enumerate_paths(fl, lambda n_: n_ is L0):
                if path.end == "raise":
                    continue
                if not any(st is L0 or any(y is L0 for y in ast.walk(st)) for st in path.stmts):
                    cond = " and ".join(("" if pol else "not ") + "(" + norm(t)[:60] + ")" for t, pol in path.conds)
                    res.findings.append(Finding(
                        "R-ATTACH", "ListLinkedToModelingObj.set_modeling_obj_container path that skips the elements",
                        f"ListLinkedToModelingObj.set_modeling_obj_container has a path (`{cond[:150]}`) that ends without "
                        f"handing the container on to the wrappers of the list: when the list leaves the model (its container "
                        f"becomes None — a simulated list put back, a replaced list) its wrappers stay registered on the objects "
                        f"they wrap, which keep reporting the old container, its usage patterns and its system", rel_l,
                        fl.lineno, "ListLinkedToModelingObj.set_modeling_obj_container"))
                    break
    res.floor = 3
    return res


# ---------------------------------------------------------------------------------------------- R-TRUTHY (C07)
@rule("R-TRUTHY")
def r_truthy(E):
    pm = E.pm
    res = RuleResult("R-TRUTHY", "where the explanation code decides whether a value has a parent by the parent's truth "
                                 "value (`if self.left_parent:`), no explainable class that is routinely a parent — the "
                                 "empty value, scalars, the base class — defines __len__ / __bool__: a falsy parent is "
                                 "dropped from the formula, and a value whose parents are all falsy cannot be explained")
    # bare truthiness tests of a parent in the explainable base class
    rel = pm.path_of("ExplainableObject")
    bare = []
    for m in pm.own_methods("ExplainableObject"):
        for n in ast.walk(m):
            tests = []
            if isinstance(n, (ast.If, ast.IfExp, ast.While)):
                tests = [n.test]
            elif isinstance(n, ast.comprehension):
                tests = list(n.ifs)
            for t in tests:
                parts = t.values if isinstance(t, ast.BoolOp) else [t]
                for p_ in parts:
                    if isinstance(p_, ast.UnaryOp) and isinstance(p_.op, ast.Not):
                        p_ = p_.operand
                    if isinstance(p_, ast.Attribute) and p_.attr in ("left_parent", "right_parent"):
                        bare.append((m, p_))
    res.instances += 1
    falsy = {}
    for cn in sorted(pm.classes):
        if "ExplainableObject" not in pm.mro(cn):
            continue
        res.instances += 1
        for m in pm.own_methods(cn):
            if m.name in ("__len__", "__bool__"):
                falsy[cn] = m
    # hourly series are never empty while they are parents (an emptied series is replaced by the empty value), and they
    # need len(): every other class of the hierarchy, and what inherits from it, must stay truthy
    never_empty = {"ExplainableHourlyQuantities"}
    if bare:
        for cn, m in sorted(falsy.items()):
            if cn in never_empty or any(k in never_empty for k in pm.mro(cn)[1:]) and cn not in ("EmptyExplainableObject",):
                continue
            mth, node = bare[0]
            res.findings.append(Finding(
                "R-TRUTHY", f"{cn}.{m.name} makes parents falsy",
                f"{cn} defines {m.name}, so its instances can be falsy, while ExplainableObject.{mth.name} decides whether a "
                f"value has a parent with `if {norm(node)}:` (line {int(node.lineno)}): such a parent disappears from the "
                f"explanation, and explain() raises for a value all of whose parents are falsy (two empty operands, a "
                f"copy of an empty value)", pm.path_of(cn), m.lineno, f"{cn}.{m.name}"))
    res.samples = [{"bare_truthiness_tests_of_parents": [f"{m.name}:{int(n.lineno)}" for m, n in bare][:4],
                    "classes_with_len_or_bool": sorted(falsy)}]
    res.floor = 5
    return res
