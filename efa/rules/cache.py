"""R-CACHE: memoisation discipline. (a) a memo table's key determines everything the stored value is computed from;
(b) the result of an lru_cache'd function is never mutated in place by a caller (the next caller would get the mutated
object). Both are who-depends-on-what checks on the syntax; the expected number of violations, and on the pinned tree
of memo tables, is zero, so the matcher proves on every run that it still fires on two embedded positive examples."""
import ast

from . import rule
from ..frontend import AnalysisError, norm
from ..report import Finding, RuleResult
from ..astutil import fully_expanded, set_parents

TAGS = [("abstract_modeling_classes/modeling_update.py", "update"), ("abstract_modeling_classes/modeling_object.py", "update"),
        ("abstract_modeling_classes/explainable", "explainable"), ("builders/time_builders.py", "time"),
        ("api_utils/", "json"), ("constants/", "json"), ("core/", "model"), ("builders/", "model"), ("utils/", "display")]


def _tag(rel):
    for frag, t in TAGS:
        if frag in rel:
            return t
    return "other"


def _chains(e):
    """maximal attribute chains rooted at a Name: [(root, text)]"""
    out = []

    def visit(n, top=True):
        if isinstance(n, ast.Attribute):
            b = n
            while isinstance(b, ast.Attribute):
                b = b.value
            if isinstance(b, ast.Name):
                out.append((b.id, norm(n)))
                return
        if isinstance(n, ast.Name):
            out.append((n.id, n.id))
            return
        for ch in ast.iter_child_nodes(n):
            visit(ch)
    visit(e)
    return out


def _memo_sites(fn):
    """(table expr text, key expr, value expr, node) for `if K not in D: D[K] = V` and `D.setdefault(K, V)`"""
    out = []
    for n in ast.walk(fn):
        if isinstance(n, ast.If) and isinstance(n.test, ast.Compare) and len(n.test.ops) == 1 \
                and isinstance(n.test.ops[0], (ast.NotIn, ast.In)):
            K, D = n.test.left, n.test.comparators[0]
            if isinstance(D, ast.Call) and isinstance(D.func, ast.Attribute) and D.func.attr == "keys":
                D = D.func.value
            arm = n.body if isinstance(n.test.ops[0], ast.NotIn) else n.orelse
            for s in arm:
                for a in ast.walk(s):
                    if isinstance(a, ast.Assign) and isinstance(a.targets[0], ast.Subscript) \
                            and norm(a.targets[0].value) == norm(D) and norm(a.targets[0].slice) == norm(K):
                        out.append((norm(D), K, a.value, a))
        if isinstance(n, ast.Call) and isinstance(n.func, ast.Attribute) and n.func.attr == "setdefault" and len(n.args) == 2:
            out.append((norm(n.func.value), n.args[0], n.args[1], n))
    return out


def _table_kind(fn, D):
    """'local' (a dict created in this function), 'shared' (module / class / self attribute), or None (handed in by
    the caller: what is constant during that caller's use of the table cannot be told here)"""
    root = D.split(".")[0].split("[")[0]
    params = {a.arg for a in fn.args.args + fn.args.kwonlyargs}
    if root == "self" or root == "cls":
        return "shared"
    if root in params:
        return None
    for n in ast.walk(fn):
        if isinstance(n, ast.Assign) and any(isinstance(t, ast.Name) and t.id == root for t in n.targets):
            return "local"
    return "shared"


def _key_gaps(fn, D, K, V):
    """attribute chains the stored value reads from what varies between two uses of the table (loop variables for a
    table local to the call; parameters as well for a table that outlives the call) that the key does not cover"""
    kind = _table_kind(fn, D)
    if kind is None:
        return []
    params = {a.arg for a in fn.args.args + fn.args.kwonlyargs}
    loopvars = set()
    for n in ast.walk(fn):
        if isinstance(n, (ast.For, ast.comprehension)):
            loopvars |= {x.id for x in ast.walk(n.target) if isinstance(x, ast.Name)}
    varying = loopvars | (params if kind == "shared" else set())
    if D.startswith("self."):
        varying.discard("self")
    Kx, Vx = fully_expanded(K, fn), fully_expanded(V, fn)
    # variables bound inside the value expression itself (comprehensions, lambdas) are not inputs
    inner = set()
    for n in ast.walk(Vx):
        if isinstance(n, ast.comprehension):
            inner |= {x.id for x in ast.walk(n.target) if isinstance(x, ast.Name)}
        if isinstance(n, ast.Lambda):
            inner |= {a.arg for a in n.args.args}
    kchains = {t for r, t in _chains(Kx)}
    # an object's identity in the key (the object itself, its .id, id(obj)) covers everything read from it
    whole = {t for t in kchains if "." not in t} | {t[:-3] for t in kchains if t.endswith(".id")}
    gaps = []
    for root, text in _chains(Vx):
        if root not in varying or root in inner:
            continue
        if any(text == k or text.startswith(k + ".") or text.startswith(k + "[") for k in kchains | whole):
            continue
        gaps.append(text)
    return sorted(set(gaps))


def _cached_functions(pm):
    out = {}
    for mod, (rel, tree, src) in pm.modules.items():
        for f in ast.walk(tree):
            if isinstance(f, ast.FunctionDef):
                for d in f.decorator_list:
                    t = norm(d.func if isinstance(d, ast.Call) else d)
                    if t.split(".")[-1] in ("lru_cache", "cache", "cached_property"):
                        out[f.name] = (rel, f)
    return out


MUTATORS = {"sort", "append", "extend", "insert", "pop", "remove", "clear", "update", "fill", "resize", "put", "itemset",
            "setdefault", "popitem", "reverse"}


def _mutations_of_cached_results(fn, cached):
    """statements of fn that mutate, in place, a local bound to the result of a cached function"""
    out = []
    bound = {}
    for n in ast.walk(fn):
        if isinstance(n, ast.Assign) and isinstance(n.value, ast.Call):
            f = n.value.func
            name = f.id if isinstance(f, ast.Name) else f.attr if isinstance(f, ast.Attribute) else None
            if name in cached:
                for t in n.targets:
                    if isinstance(t, ast.Name):
                        bound[t.id] = name
                    elif isinstance(t, (ast.Tuple, ast.List)):
                        # `index, values = cached(...)`: every component is part of the cached object
                        for x in t.elts:
                            if isinstance(x, ast.Name):
                                bound[x.id] = name
    if not bound:
        return out
    for n in ast.walk(fn):
        if isinstance(n, ast.AugAssign):
            t = n.target
            while isinstance(t, (ast.Subscript, ast.Attribute)):
                t = t.value
            if isinstance(t, ast.Name) and t.id in bound:
                out.append((n, bound[t.id], f"`{norm(n)[:60]}`"))
        if isinstance(n, ast.Assign):
            for t in n.targets:
                if isinstance(t, (ast.Subscript, ast.Attribute)):
                    b = t
                    while isinstance(b, (ast.Subscript, ast.Attribute)):
                        b = b.value
                    if isinstance(b, ast.Name) and b.id in bound:
                        out.append((n, bound[b.id], f"`{norm(n)[:60]}`"))
        if isinstance(n, ast.Call) and isinstance(n.func, ast.Attribute) and n.func.attr in MUTATORS \
                and isinstance(n.func.value, ast.Name) and n.func.value.id in bound:
            out.append((n, bound[n.func.value.id], f"`{norm(n)[:60]}`"))
    return out


_POSITIVE = '''
def localise_all(items, tz_of):
    memo = {}
    for item in items:
        key = (item.index[0], len(item.index))
        if key not in memo:
            memo[key] = item.index.tz_localize(item.owner.country.timezone.value)
        yield memo[key]

from functools import lru_cache
@lru_cache
def pattern(n):
    return [0] * n

def scaled(n, k):
    values = pattern(n)
    values *= k
    return values
'''


def _self_test():
    tree = set_parents(ast.parse(_POSITIVE))
    fns = {f.name: f for f in tree.body if isinstance(f, ast.FunctionDef)}
    sites = _memo_sites(fns["localise_all"])
    ok1 = len(sites) == 1 and _key_gaps(fns["localise_all"], *sites[0][:3]) == ["item.owner.country.timezone.value"]
    ok2 = len(_mutations_of_cached_results(fns["scaled"], {"pattern": None})) == 1
    if not (ok1 and ok2):
        raise AnalysisError("R-CACHE: the matcher no longer fires on its embedded positive examples")


@rule("R-CACHE")
def r_cache(E):
    pm = E.pm
    res = RuleResult("R-CACHE", "memoisation discipline: the key of a memo table covers every parameter / loop variable "
                                "(attribute chain) the stored value is computed from; the object returned by an "
                                "lru_cache'd function is not mutated in place by its callers")
    _self_test()
    res.instances += 2        # the two embedded positive examples, re-matched on every run
    scanned = 0
    cached = _cached_functions(pm)
    res.instances += len(cached)
    for mod, (rel, tree, src) in sorted(pm.modules.items()):
        tag = _tag(rel)
        for fn in [n for n in ast.walk(tree) if isinstance(n, ast.FunctionDef)]:
            cls = getattr(fn, "_parent", None)
            q = f"{cls.name}.{fn.name}" if isinstance(cls, ast.ClassDef) else fn.name
            scanned += 1
            for D, K, V, node in _memo_sites(fn):
                # only tables that outlive one evaluation of V: a dict, not a per-call accumulator keyed by the loop
                # variable itself (`d[up] = f(up)` for every up is a plain table, covered by its key)
                gaps = _key_gaps(fn, D, K, V)
                res.instances += 1
                if gaps:
                    res.findings.append(Finding(
                        "R-CACHE", f"{q} :: memo {D}[{norm(K)[:40]}] misses {gaps[0][:60]}",
                        f"{q} stores `{norm(V)[:70]}` in the memo table `{D}` under the key `{norm(K)[:50]}`, but the value "
                        f"also depends on {gaps}: two calls that agree on the key and differ there get the first one's "
                        f"result", rel, node.lineno, q, {"clauses": [tag]}))
                elif len(res.samples) < 4:
                    res.samples.append({"site": f"{rel}:{int(node.lineno)} {q}", "table": D, "key": norm(K)[:50],
                                        "verdict": "key covers the value's inputs"})
            for node, cf, what in _mutations_of_cached_results(fn, cached):
                res.findings.append(Finding(
                    "R-CACHE", f"{q} :: mutates result of cached {cf}",
                    f"{q} mutates in place ({what}) the object returned by {cf}(), which is decorated with a cache: every "
                    f"later call with the same arguments — and every value already built on it — sees the mutated object",
                    rel, node.lineno, q, {"clauses": [tag]}))
    # a memo kept on a class attribute: `if cls.X is None: cls.X = <computed from cls>` reads X through the MRO, so a
    # subclass finds the value its parent computed (for the parent's tables) and never computes its own
    for mod, (rel, tree, src) in sorted(pm.modules.items()):
        for fn in [n for n in ast.walk(tree) if isinstance(n, ast.FunctionDef) and n.args.args
                   and any(norm(d) == "classmethod" for d in n.decorator_list)]:
            c0 = fn.args.args[0].arg
            for st in [x for x in ast.walk(fn) if isinstance(x, ast.If)]:
                t = st.test
                attr = None
                if isinstance(t, ast.Compare) and len(t.ops) == 1 and isinstance(t.ops[0], ast.Is) \
                        and isinstance(t.left, ast.Attribute) and norm(t.left.value) == c0 \
                        and isinstance(t.comparators[0], ast.Constant) and t.comparators[0].value is None:
                    attr = t.left.attr
                elif isinstance(t, ast.UnaryOp) and isinstance(t.op, ast.Not) and isinstance(t.operand, ast.Attribute) \
                        and norm(t.operand.value) == c0:
                    attr = t.operand.attr
                if attr is None:
                    continue
                store = next((a for a in ast.walk(st) if isinstance(a, ast.Assign) and any(
                    isinstance(tg, ast.Attribute) and norm(tg.value) == c0 and tg.attr == attr for tg in a.targets)), None)
                if store is None:
                    continue
                res.instances += 1
                uses_cls = any(isinstance(x, ast.Name) and x.id == c0 for x in ast.walk(store.value))
                cls_node = getattr(fn, "_parent", None)
                has_sub = isinstance(cls_node, ast.ClassDef) and bool(pm.subclasses(cls_node.name))
                if uses_cls and has_sub:
                    q = f"{cls_node.name}.{fn.name}"
                    res.findings.append(Finding(
                        "R-CACHE", f"{q} :: class-attribute memo {attr} is inherited",
                        f"{q} memoises `{norm(store.value)[:60]}` in the class attribute `{c0}.{attr}` and tests it with "
                        f"`{norm(t)[:40]}`: attribute lookup follows the MRO, so once a parent class has filled its memo, "
                        f"a subclass (BoaviztaCloudServer under Server) reads the parent's value and never builds its own "
                        f"— what the subclass adds (its own allowed values) is ignored", rel, st.lineno, q,
                        {"clauses": [_tag(rel), "model"]}))
    # a factory of model objects / values is not memoised: the caller who asks for "a" France twice and gives one to each
    # usage pattern must get two objects — with one shared object an edit of one pattern's country moves the other's footprints
    hier = set(pm.classes_in_hierarchies()) if hasattr(pm, "classes_in_hierarchies") else set()
    for name, (rel, f) in sorted(cached.items()):
        for r in [x for x in ast.walk(f) if isinstance(x, ast.Return) and x.value is not None]:
            v = fully_expanded(r.value, f)
            built = [norm(c.func).split(".")[-1] for c in ast.walk(v) if isinstance(c, ast.Call)]
            made = [b for b in built if b in hier or b in pm.classes and (
                "ModelingObject" in pm.mro(b) or "ObjectLinkedToModelingObj" in pm.mro(b))]
            if made:
                res.findings.append(Finding(
                    "R-CACHE", f"{name} :: cached factory of {made[0]}",
                    f"{name}() is decorated with a cache and returns a new {made[0]}: every call hands out the *same* "
                    f"object, so two parts of a model that each asked for their own (two usage patterns calling "
                    f"Countries.FRANCE()) share one, and editing it for one changes the other's footprints", rel,
                    r.lineno, name, {"clauses": [_tag(rel), "factory", "model"]}))
    # a cached_property of a model class holds a value computed from attributes of the object: its cache is dropped
    # (`self.__dict__.pop("<name>", None)` / `del self.<name>`) in the class's __setattr__, under a test on the attribute
    # name that covers every attribute the property reads — the recomputed ones too, which an update assigns through
    # __setattr__ while it writes replaced inputs straight into __dict__
    for cn, ci in sorted(pm.classes.items()):
        if not pm.is_model(cn):
            continue
        for f in pm.own_methods(cn):
            decs = {norm(d).split(".")[-1] for d in f.decorator_list}
            if "cached_property" not in decs:
                continue
            res.instances += 1
            reads = sorted({x.attr for x in ast.walk(f) if isinstance(x, ast.Attribute) and isinstance(x.value, ast.Name)
                            and x.value.id == "self" and isinstance(x.ctx, ast.Load) and x.attr != f.name})
            owner, sa = pm.find_method(cn, "__setattr__")
            covered = set()
            drops = False
            if sa is not None and owner == cn:
                nparam = sa.args.args[1].arg if len(sa.args.args) > 1 else "name"
                for iff in [n for n in ast.walk(sa) if isinstance(n, ast.If)]:
                    dropping = any(
                        (isinstance(c_, ast.Call) and isinstance(c_.func, ast.Attribute) and c_.func.attr == "pop"
                         and norm(c_.func.value) == "self.__dict__" and c_.args and isinstance(c_.args[0], ast.Constant)
                         and c_.args[0].value == f.name)
                        or (isinstance(c_, ast.Delete) and any(norm(t_) == f"self.{f.name}" for t_ in c_.targets))
                        for b_ in iff.body for c_ in ast.walk(b_))
                    if not dropping:
                        continue
                    drops = True
                    t = iff.test
                    for c_ in [t] + [v_ for v_ in (t.values if isinstance(t, ast.BoolOp) else [])]:
                        if isinstance(c_, ast.Compare) and len(c_.ops) == 1 and norm(c_.left) == nparam:
                            if isinstance(c_.ops[0], ast.In) and isinstance(c_.comparators[0], (ast.Tuple, ast.List, ast.Set)):
                                covered |= {e_.value for e_ in c_.comparators[0].elts if isinstance(e_, ast.Constant)}
                            elif isinstance(c_.ops[0], ast.Eq) and isinstance(c_.comparators[0], ast.Constant):
                                covered.add(c_.comparators[0].value)
            missing = [a for a in reads if a not in covered and a != "name"]
            rel_c = pm.path_of(cn)
            if not drops:
                res.findings.append(Finding(
                    "R-CACHE", f"{cn}.{f.name} :: cached_property never dropped",
                    f"{cn}.{f.name} is a cached_property computed from {reads} and nothing drops its cache when those change: "
                    f"after an edit the object keeps serving the value of the previous inputs", rel_c, f.lineno,
                    f"{cn}.{f.name}", {"clauses": [_tag(rel_c), "model"]}))
            elif missing:
                res.findings.append(Finding(
                    "R-CACHE", f"{cn}.{f.name} :: cache not dropped when {missing[0]} changes",
                    f"{cn}.{f.name} is a cached_property computed from {reads}; {cn}.__setattr__ drops its cache only when the "
                    f"attribute assigned is one of {sorted(covered)} — not when `{missing[0]}` is: an update writes replaced "
                    f"inputs straight into __dict__ and assigns the recomputed `{missing[0]}` afterwards, so the cached value "
                    f"keeps describing the previous one", rel_c, f.lineno, f"{cn}.{f.name}",
                    {"clauses": [_tag(rel_c), "model"]}))
    res.breakdown = {"cached_functions": sorted(cached), "functions_scanned": scanned}
    if scanned < 300:
        raise AnalysisError(f"R-CACHE scanned only {scanned} functions")
    res.floor = 2
    return res
