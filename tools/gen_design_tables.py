#!/venv/bin/python
"""Regenerate the generated parts of DESIGN.md (between <!-- BEGIN x --> / <!-- END x --> markers) from the evidence
files and the seed / benign metadata: rules per property with measured instance counts, the seed table, the benign table."""
import json, os, re, sys
V = os.path.dirname(os.path.dirname(os.path.abspath(__file__)))

def rules_per_property():
    out, total_rules, total = [], set(), 0
    inst = {}
    for i in range(1, 21):
        p = f"C{i:02d}"
        e = json.load(open(os.path.join(V, "evidence", p + ".json")))
        rs = e["coverage"]["rules"]
        out.append(f"* **{p}** — " + " · ".join(f"{r['rule']} {r['instances']}" for r in rs))
        for r in rs:
            inst[r["rule"].split(":")[0]] = r["instances"]
    out.append("")
    out.append(f"{len(inst)} rules, {sum(inst.values())} instances in total on the current tree (a rule shared by several "
               f"properties counted once).")
    return "\n".join(out)

def seed_table():
    rows = ["| seed | breaks | file(s) | rule(s) that report it | properties whose check fails | own property's check fires |",
            "|---|---|---|---|---|---|"]
    own = other = none = 0
    for d in sorted(os.listdir(os.path.join(V, "seeded")), key=lambda x: (x[:3], "r" in x, x)):
        m = json.load(open(os.path.join(V, "seeded", d, "meta.json")))
        patch = open(os.path.join(V, "seeded", d, "patch.diff")).read()
        files = sorted({f.replace("efootprint/", "") for f in re.findall(r"^\+\+\+ b/(\S+)", patch, re.M)})
        v = m["detected_by"]["violations_by_property"] or {}
        rules = ", ".join(m.get("expected_rules") or []) or "—"
        if m["breaks_property"] in v:
            verdict = "yes"; own += 1
        elif v:
            verdict = "other property"; other += 1
        else:
            verdict = "**no**"; none += 1
        rows.append(f"| {d} | {m['breaks_property']} | {', '.join(files)} | {rules} | {', '.join(sorted(v)) or '—'} | {verdict} |")
    rows.append("")
    rows.append(f"Totals: {own + other + none} seeds — {own} reported under their own property, {other} under another "
                f"property only, {none} not reported.")
    return "\n".join(rows)

def benign_table():
    rows = ["| refactoring | files | what it does (author's note, first line) | alarms | undecided |", "|---|---|---|---|---|"]
    for d in sorted(os.listdir(os.path.join(V, "benign"))):
        mp = os.path.join(V, "benign", d, "meta.json")
        m = json.load(open(mp)) if os.path.exists(mp) else {}
        patch = open(os.path.join(V, "benign", d, "patch.diff")).read()
        files = sorted({os.path.basename(f) for f in re.findall(r"^\+\+\+ b/(\S+)", patch, re.M)})
        note = ""
        np_ = os.path.join(V, "benign", d, "notes.md")
        if os.path.exists(np_):
            lines = [l.strip() for l in open(np_) if l.strip() and not l.startswith("#")]
            note = (lines[0] if lines else "")[:140].replace("|", "/")
        rows.append(f"| {d} | {', '.join(files)} | {note} | {len(m.get('false_alarms') or [])} | {len(m.get('analysis_errors') or [])} |")
    return "\n".join(rows)

GEN = {"rules-per-property": rules_per_property, "seed-table": seed_table, "benign-table": benign_table}
p = os.path.join(V, "DESIGN.md")
s = open(p).read()
for k, f in GEN.items():
    a, b = f"<!-- BEGIN {k} -->", f"<!-- END {k} -->"
    if a in s and b in s:
        s = s[:s.index(a) + len(a)] + "\n" + f() + "\n" + s[s.index(b):]
    else:
        print("marker missing:", k)
open(p, "w").write(s)
