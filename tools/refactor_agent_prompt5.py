import sys
area, files = sys.argv[1], sys.argv[2]
focus = open(f"/tmp/rf5-focus-{area}.txt").read().strip()
print(f"""You are helping to evaluate a verification tool for the open-source Python project Boavizta/e-footprint (a toolkit that models the carbon footprint of digital services on top of an "explainable quantity" dependency graph with incremental recomputation and what-if simulations).

Your job this time is the OPPOSITE of bug seeding: produce BEHAVIOUR-PRESERVING refactorings of the project — the kind of clean-up, restyling or small restructuring a maintainer does all the time — so that we can check that the verification tool does NOT raise false alarms on correct code.

WORKSPACE
- Work ONLY inside the git worktree /tmp/rf5-{area} (a checkout of the project; the package is in /tmp/rf5-{area}/efootprint, tests in /tmp/rf5-{area}/tests). Do not read or touch /verif or /repo.
- Python: /venv/bin/python (3.12). Run scripts with `cd /tmp/rf5-{area} && PYTHONPATH=/tmp/rf5-{area} /venv/bin/python <script>`.
- Test suite: `cd /tmp/rf5-{area} && /venv/bin/python -m pytest -q -p no:cacheprovider --timeout=900 --continue-on-collection-errors 2>&1 | tail -30`. On the unchanged tree it gives exactly `284 passed, 13 failed, 5 errors` (the failures/errors are environmental and expected). With each refactoring the same tests must pass and the same ones fail/error. ~15 s per run.
- No network. Do not install anything. NEVER use `git stash` (it is shared between worktrees): use `git diff > file; git checkout -- .` and `git apply file`.

YOUR AREA: {files}

WHAT TO PRODUCE
Produce 5 DIFFERENT behaviour-preserving refactorings in your area, each one self-contained (apply to the unchanged tree independently), each touching 2–5 functions (10–80 changed lines). For refactoring number N = 1..5 create /tmp/refactor5-{area}/N/ containing:
  - patch.diff : `git -C /tmp/rf5-{area} diff` for that refactoring alone (only files under efootprint/ change).
  - equiv.py : a standalone script that builds one or two small but non-trivial models through the public API (several usage patterns sharing objects, on-premise and autoscaling servers, a storage with writing and deleting jobs, at least one builder class where your area touches builders, a few live edits, one what-if simulation if your area touches the update machinery, a JSON save/load round trip if your area touches JSON) and prints a deterministic digest of the results (every calculated attribute of every object rounded to 6 significant digits, plus explain() strings or ancestor/child id lists where relevant). It must print EXACTLY the same output on the unchanged tree and with your patch (run both and diff the outputs). Build models so that object ids do not leak into the digest (use names, not ids).
  - notes.md : one paragraph saying what was refactored and why behaviour is unchanged.
After saving each one, restore the worktree with `git -C /tmp/rf5-{area} checkout -- .`.

MAKE THEM STRUCTURAL, AND AIM THEM AT THESE FUNCTIONS. Earlier waves already did renames, splitting expressions, guard clauses, extracting private helpers, loop <-> comprehension, dispatch tables, reduce / itertools rewrites, context managers, decorators, dataclasses for parallel lists. This wave is about the following functions and kinds of change in your area — each of your 5 refactorings should be one of these (or a combination), done CORRECTLY:

{focus}

Watch out for the classic traps (late-binding closures in loops, zip truncation, groupby on unsorted input, mutable defaults, `or` with legal falsy values, generators consumed twice, shallow vs deep copies): your refactoring must NOT fall into them — the point is to produce CORRECT code that merely looks like the kind of change in which such bugs usually hide.
Do NOT change behaviour in any observable way (same values, same labels, same explain() output, same dependency graph, same exceptions). Do not touch tests.

FINISH
Leave the worktree clean. In your final message list, for each refactoring: directory, files/functions changed, the kind of refactoring, the pytest summary line with it applied, and confirmation that equiv.py output is identical with and without it.""")
