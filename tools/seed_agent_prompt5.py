import sys
pid = sys.argv[1]
focus = open(f"/tmp/focus-{pid}.txt").read().strip()
prop = open(f"/tmp/prop-{pid}.txt").read()
print(f"""You are helping to evaluate a verification tool for the open-source Python project Boavizta/e-footprint (a toolkit that models the carbon footprint of digital services on top of an "explainable quantity" dependency graph with incremental recomputation and what-if simulations).

Your job: inject realistic, subtle BUGS into the project that break ONE stated behavioural property, while the code still imports and the project's existing test suite still passes exactly as before. These seeded bugs are used as test inputs for the verification tool; they are never merged anywhere.

WORKSPACE
- Work ONLY inside the git worktree /tmp/w5-{pid} (a checkout of the project; the package is in /tmp/w5-{pid}/efootprint, tests in /tmp/w5-{pid}/tests). Do not read or touch /verif or /repo. Do not look for other verification material; what you write must be independent.
- Python: /venv/bin/python (3.12). Run scripts with `cd /tmp/w5-{pid} && PYTHONPATH=/tmp/w5-{pid} /venv/bin/python <script>`; check with `python -c "import efootprint; print(efootprint.__file__)"` that the worktree copy is the one imported.
- Test suite: `cd /tmp/w5-{pid} && /venv/bin/python -m pytest -q -p no:cacheprovider --timeout=900 --continue-on-collection-errors 2>&1 | tail -30`. On the UNCHANGED tree it gives exactly `284 passed, 13 failed, 5 errors` (the failures/errors are environmental — no network, missing data file — and are expected). With your change the same 284 tests must still pass and the same 13/5 must still fail/error: no more, no fewer. ~15 seconds per run.
- No network. Do not install anything.
- NEVER use `git stash` (the stash is shared by all worktrees of this repository and other people are working in sibling worktrees): to set a change aside use `git diff > file; git checkout -- .` and `git apply file` to bring it back. Before saving each patch.diff re-read it and make sure it only contains your own hunks.

THE PROPERTY TO BREAK
{prop}

WHAT TO PRODUCE
Produce up to 2 DIFFERENT seeded bugs (different mechanisms / different code sites, not variations of one idea). For each bug number N = 1, 2 create the directory /tmp/seed5-{pid}/N/ containing:
  - patch.diff : output of `git -C /tmp/w5-{pid} diff` for that bug alone (must apply cleanly with `git apply` on the unchanged tree; only files under efootprint/ may change; keep it small and realistic — the kind of edit a hurried developer or a plausible refactor/"optimisation" could make; do not add comments that announce the bug).
  - demo.py : a standalone script that builds a small model through the public API and checks the property; it must EXIT 0 (printing OK) on the unchanged tree and EXIT 1 (printing what went wrong) with the patch applied. Run it both ways and confirm. It is run as `cd <tree> && PYTHONPATH=<tree> /venv/bin/python demo.py`, so it must not hard-code /tmp/w5-{pid} for imports.
  - notes.md : which clause of the property is broken, the mechanism, and WHAT IS NEEDED FOR IT TO MANIFEST.
After saving each bug, restore the worktree with `git -C /tmp/w5-{pid} checkout -- .` before starting the next one.

FIFTH ROUND — ONE CLAUSE OF THE PROPERTY
Four rounds of seeded bugs exist already (direct edits; bugs hidden in one-function refactorings; bugs spread over several sites; bugs hidden inside larger refactorings and in language features such as late-binding closures, zip truncation, groupby on unsorted input, `or` defaults, truncation of durations, positional filtering). Most of them went for the central mechanism of their property. This round, both of your bugs must break THIS PART of the property, which earlier rounds mostly left alone:

    {focus}

Read the property again with that clause in mind, find the code that makes it true (it may be far from the obvious entry point: a guard, a default, an `__eq__` / `__hash__`, a table, a unit definition, an upgrade handler, a check that runs only at construction), and break it in two DIFFERENT ways. The other parts of the property should keep holding, so that a test of the central mechanism still passes. Do not reuse the mechanisms listed above.
Prefer changes of 5-40 lines that a reviewer would plausibly approve.

WHAT MAKES A GOOD SEEDED BUG
- It must be a genuine violation of the property as stated (observable through the public API), not a crash at import and not something every ordinary use would expose at once.
- Prefer bugs that need something specific to manifest: a particular multi-step sequence of operations, an unusual but legal input (zero, empty list, shared object, different units or time zones, a no-op operation, a failing edit followed by another edit…), or two cooperating code sites that each look fine alone.
- It must not be caught by the existing tests (verify by running the suite). Many tests use mocks and call one update_* method at a time, so whole-system behaviour is largely untested — use that.
- Read the relevant source carefully first (start from the anchor files above), understand the mechanism the property relies on, then break it in a way that still looks like reasonable code.
- Hints for building models in demo.py: see tests/ and e.g. `Storage.ssd()`, `Server.from_defaults(name, storage=...)`, `Job.from_defaults(name, server=...)`, `UsageJourneyStep(name, user_time_spent=SourceValue(1*u.min), jobs=[...])`, `UsageJourney(name, uj_steps=[...])`, `UsagePattern(name, usage_journey, devices=[Device.laptop()], network=Network.wifi_network(), country=Countries.FRANCE(), hourly_usage_journey_starts=create_source_hourly_values_from_list([...], start_date=...))`, `System(name, usage_patterns=[...])`; imports from efootprint.core..., efootprint.abstract_modeling_classes.source_objects (SourceValue, SourceObject), efootprint.constants.units (u), efootprint.constants.countries (Countries), efootprint.builders.time_builders. Never reuse one SourceValue object in two places (a value can only be attached to one model object). Silence logging with `from efootprint.logger import logger; import logging; logger.setLevel(logging.ERROR)`.

FINISH
Leave the worktree clean (`git -C /tmp/w5-{pid} status --short` prints nothing). In your final message, list for each bug: directory, files changed, one-sentence mechanism, what is needed to manifest, and the observed demo results (unchanged tree: exit 0; patched: exit 1) and the pytest summary line with the patch applied. If you could only produce fewer than 2 convincing bugs, say so rather than padding with weak ones.""")
