import sys
area, files = sys.argv[1], sys.argv[2]
print(f"""You are helping to evaluate a verification tool for the open-source Python project Boavizta/e-footprint (a toolkit that models the carbon footprint of digital services on top of an "explainable quantity" dependency graph with incremental recomputation and what-if simulations).

Your job this time is the OPPOSITE of bug seeding: produce BEHAVIOUR-PRESERVING refactorings of the project — the kind of clean-up, restyling or small restructuring a maintainer does all the time — so that we can check that the verification tool does NOT raise false alarms on correct code.

WORKSPACE
- Work ONLY inside the git worktree /tmp/rf-{area} (a checkout of the project; the package is in /tmp/rf-{area}/efootprint, tests in /tmp/rf-{area}/tests). Do not read or touch /verif or /repo.
- Python: /venv/bin/python (3.12). Run scripts with `cd /tmp/rf-{area} && PYTHONPATH=/tmp/rf-{area} /venv/bin/python <script>`.
- Test suite: `cd /tmp/rf-{area} && /venv/bin/python -m pytest -q -p no:cacheprovider --timeout=900 --continue-on-collection-errors 2>&1 | tail -30`. On the unchanged tree it gives exactly `284 passed, 13 failed, 5 errors` (the failures/errors are environmental and expected). With each refactoring the same tests must pass and the same ones fail/error. ~15 s per run.
- No network. Do not install anything. NEVER use `git stash` (it is shared between worktrees): use `git diff > file; git checkout -- .` and `git apply file`.

YOUR AREA: {files}

WHAT TO PRODUCE
Produce 6 DIFFERENT behaviour-preserving refactorings in your area, each one self-contained (apply to the unchanged tree independently), each touching 1–3 functions. For refactoring number N = 1..6 create /tmp/refactor-{area}/N/ containing:
  - patch.diff : `git -C /tmp/rf-{area} diff` for that refactoring alone (only files under efootprint/ change).
  - equiv.py : a standalone script that builds one or two small but non-trivial models through the public API (several usage patterns sharing objects, on-premise and autoscaling servers, a storage with writing and deleting jobs, at least one builder class where your area touches builders, a few live edits, one what-if simulation if your area touches the update machinery, a JSON save/load round trip if your area touches JSON) and prints a deterministic digest of the results (every calculated attribute of every object rounded to 6 significant digits, plus explain() strings or ancestor/child id lists where relevant). It must print EXACTLY the same output on the unchanged tree and with your patch (run both and diff the outputs). Build models so that object ids do not leak into the digest (use names, not ids).
  - notes.md : one paragraph saying what was refactored and why behaviour is unchanged.
After saving each one, restore the worktree with `git -C /tmp/rf-{area} checkout -- .`.

MAKE THEM DIVERSE AND REALISTIC. Use a mix of, for example:
  - renaming local variables, parameters of private helpers, loop variables;
  - splitting a long expression into several statements / merging statements into one expression;
  - extracting a helper method or property / inlining a helper;
  - replacing a for-loop that builds a list/dict by a comprehension, or the reverse; `sum(..., start=...)` vs accumulation loop;
  - reordering independent statements, reordering commutative operands, reordering independent if/elif branches, replacing `if a: ... else: ...` by early return;
  - changing a guard's spelling without changing its meaning (`if x:` vs `if len(x) > 0`, `not (a and b)` vs `not a or not b`, `isinstance(x, (A, B))`);
  - moving a literal list into a class-level or module-level constant; introducing a local alias for a long attribute chain;
  - changing keyword arguments to positional ones or vice versa where the meaning stays the same;
  - adding logging or comments, adding type annotations, converting `.format` / concatenation to f-strings.
Do NOT change behaviour in any observable way (same values, same labels, same explain() output, same dependency graph, same exceptions). Do not touch tests.

FINISH
Leave the worktree clean. In your final message list, for each refactoring: directory, files/functions changed, the kind of refactoring, the pytest summary line with it applied, and confirmation that equiv.py output is identical with and without it.""")
