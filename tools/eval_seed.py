#!/venv/bin/python
"""Evaluate one seeded change (directory with patch.diff + demo.py) against a scratch copy of /repo:
 1. the patch applies; the pinned suite gives the baseline results (same passed set);
 2. demo.py exits 0 on the unchanged copy and non-zero on the patched copy;
 3. which property checks report a VIOLATION on the patched copy (EFA_REPO=<scratch>, evidence redirected).
Usage: tools/eval_seed.py <seed dir> [--no-suite]
Scratch copies live under $TMPDIR and are removed afterwards."""
import json
import os
import shutil
import subprocess
import sys
import tempfile

VERIF = os.path.dirname(os.path.dirname(os.path.abspath(__file__)))


def sh(cmd, cwd=None, env=None, timeout=1800):
    p = subprocess.run(cmd, shell=True, cwd=cwd, env=env, capture_output=True, text=True, timeout=timeout)
    return p.returncode, p.stdout + p.stderr


def suite(tree):
    rc, out = sh("/venv/bin/python -m pytest -q -p no:cacheprovider --timeout=900 --continue-on-collection-errors -q -rA "
                 "2>&1 | grep -E '^(PASSED|FAILED|ERROR)' | sort", cwd=tree)
    return set(out.splitlines())


def main():
    seed = os.path.abspath(sys.argv[1])
    do_suite = "--no-suite" not in sys.argv
    tmp = tempfile.mkdtemp(prefix="seed-eval-")
    res = {"seed": seed}
    try:
        base = os.path.join(tmp, "base")
        pat = os.path.join(tmp, "patched")
        sh(f"git -C /repo worktree add -q --detach {base} HEAD")
        sh(f"git -C /repo worktree add -q --detach {pat} HEAD")
        # include uncommitted state of /repo? no: seeds are defined against HEAD
        rc, out = sh(f"git apply {seed}/patch.diff", cwd=pat)
        res["applies"] = rc == 0
        if rc != 0:
            res["apply_error"] = out[-400:]
            print(json.dumps(res, indent=1))
            return 1
        env = dict(os.environ)
        for name, tree in (("base", base), ("patched", pat)):
            e = dict(env, PYTHONPATH=tree)
            shutil.copy(os.path.join(seed, "demo.py"), os.path.join(tree, "demo_seed.py"))
            rc, out = sh("/venv/bin/python demo_seed.py", cwd=tree, env=e, timeout=600)
            res[f"demo_{name}_exit"] = rc
            res[f"demo_{name}_tail"] = out.strip().splitlines()[-3:]
            os.remove(os.path.join(tree, "demo_seed.py"))
        if do_suite:
            b, p = suite(base), suite(pat)
            res["suite_same"] = b == p
            res["suite_passed"] = sum(1 for l in p if l.startswith("PASSED"))
            if b != p:
                res["suite_diff"] = sorted(b ^ p)[:10]
        evd = os.path.join(tmp, "evidence")
        e = dict(env, EFA_REPO=pat, EFA_EVIDENCE_DIR=evd)
        rc, out = sh(f"/venv/bin/python {VERIF}/check --all", env=e, timeout=900)
        viol = {}
        for line in out.splitlines():
            if line.startswith("VIOLATION"):
                prop = line.split("property=")[1].split()[0]
                viol.setdefault(prop, 0)
                viol[prop] += 1
        res["violations_by_property"] = viol
        res["analysis_errors"] = [l[:200] for l in out.splitlines() if l.startswith("ANALYSIS-ERROR")][:6]
        res["details"] = [l.strip()[:260] for l in out.splitlines() if l.startswith("  R-")][:8]
        print(json.dumps(res, indent=1))
        return 0
    finally:
        sh(f"git -C /repo worktree remove --force {tmp}/base; git -C /repo worktree remove --force {tmp}/patched")
        shutil.rmtree(tmp, ignore_errors=True)
        sh("git -C /repo worktree prune")


if __name__ == "__main__":
    sys.exit(main())
