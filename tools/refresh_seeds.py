#!/venv/bin/python
"""Re-run the checks on every filed seed (no test-suite run) and refresh the detection part of its meta.json.
Usage: tools/refresh_seeds.py [ids...]"""
import json, os, re, subprocess, sys
import concurrent.futures as cf
VERIF = os.path.dirname(os.path.dirname(os.path.abspath(__file__)))
base = os.path.join(VERIF, "seeded")
ids = sys.argv[1:] or sorted(os.listdir(base))

def one(sid):
    d = os.path.join(base, sid)
    if not os.path.exists(os.path.join(d, "meta.json")):
        return sid, "no meta"
    p = subprocess.run([os.path.join(VERIF, "tools", "eval_seed.py"), d, "--no-suite"], capture_output=True, text=True)
    try:
        res = json.loads(p.stdout[p.stdout.index("{"):])
    except Exception:
        return sid, "eval failed: " + (p.stdout + p.stderr)[-300:]
    meta = json.load(open(os.path.join(d, "meta.json")))
    if not res.get("applies"):
        meta["patch_applies_on_current_head"] = False
        json.dump(meta, open(os.path.join(d, "meta.json"), "w"), indent=1)
        return sid, "PATCH NO LONGER APPLIES"
    meta["patch_applies_on_current_head"] = True
    meta["expected_rules"] = sorted({m.group(1) for x in (res.get("details") or []) for m in [re.match(r"(R-[A-Z0-9-]+) ", x)] if m})
    meta["detected_by"] = {"violations_by_property": res.get("violations_by_property"),
                           "reports": sorted(set(res.get("details") or []))[:6],
                           "analysis_errors": res.get("analysis_errors")}
    meta["what_was_run"]["demo.py with the patch (exit code)"] = res.get("demo_patched_exit")
    meta["what_was_run"]["demo.py on the unchanged tree (exit code)"] = res.get("demo_base_exit")
    json.dump(meta, open(os.path.join(d, "meta.json"), "w"), indent=1)
    own = meta["breaks_property"] in (res.get("violations_by_property") or {})
    return sid, f"base {res.get('demo_base_exit')} patched {res.get('demo_patched_exit')} | {res.get('violations_by_property')} | own property: {own} | errors {len(res.get('analysis_errors') or [])}"

with cf.ThreadPoolExecutor(max_workers=6) as ex:
    for sid, msg in ex.map(one, ids):
        print(sid, msg)
