#!/venv/bin/python
"""Re-run `check --all` on a scratch copy of /repo with each benign refactoring (benign/<id>/patch.diff) applied and
print the alarms (VIOLATION findings beyond the known ones = false alarms) and ANALYSIS-ERROR lines; updates meta.json.
Usage: tools/recheck_benign.py [ids...]   (default: all)"""
import concurrent.futures as cf, json, os, shutil, subprocess, sys, tempfile
VERIF = os.path.dirname(os.path.dirname(os.path.abspath(__file__)))

def one(i):
    d = os.path.join(VERIF, "benign", i)
    tmp = tempfile.mkdtemp(prefix="rb-")
    try:
        shutil.copytree("/repo/efootprint", os.path.join(tmp, "efootprint"), ignore=shutil.ignore_patterns("__pycache__"))
        p = subprocess.run(["git", "apply", "-p1", os.path.join(d, "patch.diff")], cwd=tmp, capture_output=True, text=True)
        if p.returncode:
            return i, None, ["patch does not apply: " + p.stderr[:200]]
        e = dict(os.environ, EFA_REPO=tmp, EFA_EVIDENCE_DIR=os.path.join(tmp, "ev"))
        out = subprocess.run(["/venv/bin/python", os.path.join(VERIF, "check"), "--all"], env=e, capture_output=True, text=True)
        o = out.stdout + out.stderr
        fa = sorted({l.strip()[:300] for l in o.splitlines() if l.startswith("  R-")})
        ae = sorted({l[:260] for l in o.splitlines() if l.startswith("ANALYSIS-ERROR") or "Traceback" in l})
        mp = os.path.join(d, "meta.json")
        m = json.load(open(mp)) if os.path.exists(mp) else {}
        m["false_alarms"], m["analysis_errors"] = fa, ae
        json.dump(m, open(mp, "w"), indent=1)
        return i, fa, ae
    finally:
        shutil.rmtree(tmp, ignore_errors=True)

if __name__ == "__main__":
    ids = sys.argv[1:] or sorted(os.listdir(os.path.join(VERIF, "benign")))
    bad = 0
    with cf.ProcessPoolExecutor(8) as ex:
        for i, fa, ae in ex.map(one, ids):
            mp = os.path.join(VERIF, "benign", i, "meta.json")
            is_open = os.path.exists(mp) and json.load(open(mp)).get("open")
            print(f"{i}: false alarms {len(fa or [])} | analysis errors {len(ae)}" + (" [open: known false alarm]" if is_open else ""))
            for x in (fa or [])[:4]: print("    FA", x[:230])
            for x in ae[:3]: print("    AE", x[:230])
            bad += bool(fa) and not is_open
    sys.exit(1 if bad else 0)
