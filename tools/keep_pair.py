#!/venv/bin/python
"""File a (buggy refactoring, correct twin) pair written by an independent sub-agent: the buggy version under
/verif/seeded/<prop>-v<N>/ (tools/keep_seed.py: demo passes on the unchanged tree, fails with the patch, suite unchanged),
the twin under /verif/benign/twin6-<prop>-<N>/ (tools/keep_benign.py: patch applies, equiv.py prints the same, checks
silent); additionally the demo must pass with the twin applied. Usage: tools/keep_pair.py <src dir> <prop> <N> [round]
(round 6: seeded/<prop>-v<N>, benign/twin6-…; round 7: seeded/<prop>-w<N>, benign/twin7-…)"""
import json, os, shutil, subprocess, sys, tempfile
VERIF = os.path.dirname(os.path.dirname(os.path.abspath(__file__)))
src, prop, n = sys.argv[1], sys.argv[2], sys.argv[3]
rnd = sys.argv[4] if len(sys.argv) > 4 else "6"
letter = {"6": "v", "7": "w", "8": "x", "9": "y", "10": "z"}[rnd]
sid, bid = f"{prop}-{letter}{n}", f"twin{rnd}-{prop}-{n}"
for f in ("patch.diff", "twin.diff", "demo.py"):
    if not os.path.exists(os.path.join(src, f)):
        print(sid, "incomplete pair: missing", f); sys.exit(1)
# demo with the twin applied
w = tempfile.mkdtemp(prefix="pair-")
try:
    subprocess.run(f"cd /repo && git archive HEAD | tar -x -C {w}", shell=True, check=True)
    ap = subprocess.run(["git", "apply", os.path.join(src, "twin.diff")], cwd=w, capture_output=True, text=True)
    if ap.returncode != 0:
        print(bid, "twin does not apply:", ap.stderr[:200]); twin_demo = None
    else:
        shutil.copy(os.path.join(src, "demo.py"), os.path.join(w, "_demo.py"))
        r = subprocess.run(["/venv/bin/python", "_demo.py"], cwd=w, env=dict(os.environ, PYTHONPATH=w), capture_output=True, text=True, timeout=900)
        twin_demo = r.returncode
finally:
    shutil.rmtree(w, ignore_errors=True)
print(sid, "demo with the twin applied: exit", twin_demo)
t = tempfile.mkdtemp(prefix="twin-")
shutil.copy(os.path.join(src, "twin.diff"), os.path.join(t, "patch.diff"))
for f in ("equiv.py", "notes.md"):
    if os.path.exists(os.path.join(src, f)):
        shutil.copy(os.path.join(src, f), os.path.join(t, f))
subprocess.run([os.path.join(VERIF, "tools", "keep_benign.py"), t, bid])
shutil.rmtree(t, ignore_errors=True)
mp = os.path.join(VERIF, "benign", bid, "meta.json")
if os.path.exists(mp):
    m = json.load(open(mp)); m["twin_of_seed"] = sid; m["demo_exit_with_twin"] = twin_demo
    m["origin"] = "correct twin of a seeded buggy refactoring, written by the same independent sub-agent (round " + rnd + ")"
    json.dump(m, open(mp, "w"), indent=1)
subprocess.run([os.path.join(VERIF, "tools", "keep_seed.py"), src, sid, prop])
sm = os.path.join(VERIF, "seeded", sid, "meta.json")
if os.path.exists(sm):
    m = json.load(open(sm)); m["correct_twin"] = f"benign/{bid}"; json.dump(m, open(sm, "w"), indent=1)
