import sys
pid = sys.argv[1]
prop = open(f"/tmp/prop-{pid}.txt").read()
print(f"""You are helping to evaluate a verification tool for the open-source Python project Boavizta/e-footprint (a toolkit that models the carbon footprint of digital services on top of an "explainable quantity" dependency graph with incremental recomputation and what-if simulations).

Your job: inject realistic, subtle BUGS into the project that break ONE stated behavioural property, while the code still imports and the project's existing test suite still passes exactly as before. These seeded bugs are used as test inputs for the verification tool; they are never merged anywhere.

WORKSPACE
- Work ONLY inside the git worktree /tmp/w6-{pid} (a checkout of the project; the package is in /tmp/w6-{pid}/efootprint, tests in /tmp/w6-{pid}/tests). Do not read or touch /verif or /repo. Do not look for other verification material; what you write must be independent.
- Python: /venv/bin/python (3.12). Run scripts with `cd /tmp/w6-{pid} && PYTHONPATH=/tmp/w6-{pid} /venv/bin/python <script>`; check with `python -c "import efootprint; print(efootprint.__file__)"` that the worktree copy is the one imported.
- Test suite: `cd /tmp/w6-{pid} && /venv/bin/python -m pytest -q -p no:cacheprovider --timeout=900 --continue-on-collection-errors 2>&1 | tail -30`. On the UNCHANGED tree it gives exactly `284 passed, 13 failed, 5 errors` (the failures/errors are environmental — no network, missing data file — and are expected). With your change the same 284 tests must still pass and the same 13/5 must still fail/error: no more, no fewer. ~15 seconds per run.
- No network. Do not install anything.
- NEVER use `git stash` (the stash is shared by all worktrees of this repository and other people are working in sibling worktrees): to set a change aside use `git diff > file; git checkout -- .` and `git apply file` to bring it back. Before saving each patch.diff re-read it and make sure it only contains your own hunks.

THE PROPERTY TO BREAK
{prop}

WHAT TO PRODUCE
Produce 2 DIFFERENT PAIRS. A pair is ONE plausible refactoring / clean-up / small feature of 15-60 changed lines in the code that makes the property true, in TWO versions:
  - the BUGGY version: the refactoring with a subtle mistake in it that breaks the property (as in the earlier rounds);
  - the CORRECT TWIN: the SAME refactoring done right — same new helper names, same structure, same style, as close to the buggy version as possible (ideally they differ by one to five lines) — which preserves behaviour exactly.
For each pair number N = 1, 2 create the directory /tmp/seed6-{pid}/N/ containing:
  - patch.diff : `git -C /tmp/w6-{pid} diff` of the BUGGY version alone (applies cleanly on the unchanged tree; only files under efootprint/ change).
  - twin.diff : `git -C /tmp/w6-{pid} diff` of the CORRECT TWIN alone (applies cleanly on the unchanged tree).
  - demo.py : a standalone script that builds a small model through the public API and checks the property; it must EXIT 0 (printing OK) on the unchanged tree AND on the tree with twin.diff applied, and EXIT 1 (printing what went wrong) with patch.diff applied.
  - equiv.py : a standalone script printing a deterministic digest of behaviour relevant to the refactored code (values, labels, explain() strings, ancestors / children names, exceptions; fix PYTHONHASHSEED and seed uuid.uuid4 by re-executing itself, never print object ids); its output must be byte-identical on the unchanged tree and with twin.diff applied.
  - notes.md : which clause of the property the buggy version breaks, the mechanism, what is needed for it to manifest, and the exact lines where the two versions differ.
After saving each pair, restore the worktree with `git -C /tmp/w6-{pid} checkout -- .` before starting the next one.

SIXTH ROUND — PAIRS
Five rounds of seeded bugs exist already (direct edits; bugs hidden in one-function refactorings; bugs spread over several sites; bugs hidden inside larger refactorings and in language features; bugs aimed at one clause). Their weakness as a test of a verification tool: a tool can "detect" such a patch simply because it no longer recognises the rewritten code, not because it understood the mistake. The pairs of this round separate the two: the tool must object to the buggy version and must have NOTHING to say about the twin. So make the refactoring itself substantial and unusual enough to be a real test of recognition (move code into helpers or out of them, change loops into comprehensions / itertools / vectorised operations or back, replace if-chains by tables, change data representations, use less common but legitimate language features), and make the mistake small and local inside it. Do not reuse mechanisms that are obvious from the property text alone; read the code and find what a maintainer could really get wrong while doing that refactoring (an off-by-one in a slice, a default evaluated once, a filter dropped or added, the wrong one of two similar variables, an operation done in place on something shared, a condition inverted in one branch, an order of two statements, a key that is not unique, a unit taken before conversion, a test that is true for one more case).

WHAT MAKES A GOOD SEEDED BUG
- It must be a genuine violation of the property as stated (observable through the public API), not a crash at import and not something every ordinary use would expose at once.
- Prefer bugs that need something specific to manifest: a particular multi-step sequence of operations, an unusual but legal input (zero, empty list, shared object, different units or time zones, a no-op operation, a failing edit followed by another edit…), or two cooperating code sites that each look fine alone.
- It must not be caught by the existing tests (verify by running the suite). Many tests use mocks and call one update_* method at a time, so whole-system behaviour is largely untested — use that.
- Read the relevant source carefully first (start from the anchor files above), understand the mechanism the property relies on, then break it in a way that still looks like reasonable code.
- Hints for building models in demo.py: see tests/ and e.g. `Storage.ssd()`, `Server.from_defaults(name, storage=...)`, `Job.from_defaults(name, server=...)`, `UsageJourneyStep(name, user_time_spent=SourceValue(1*u.min), jobs=[...])`, `UsageJourney(name, uj_steps=[...])`, `UsagePattern(name, usage_journey, devices=[Device.laptop()], network=Network.wifi_network(), country=Countries.FRANCE(), hourly_usage_journey_starts=create_source_hourly_values_from_list([...], start_date=...))`, `System(name, usage_patterns=[...])`; imports from efootprint.core..., efootprint.abstract_modeling_classes.source_objects (SourceValue, SourceObject), efootprint.constants.units (u), efootprint.constants.countries (Countries), efootprint.builders.time_builders. Never reuse one SourceValue object in two places (a value can only be attached to one model object). Silence logging with `from efootprint.logger import logger; import logging; logger.setLevel(logging.ERROR)`.

FINISH
Leave the worktree clean (`git -C /tmp/w6-{pid} status --short` prints nothing). In your final message, list for each pair: directory, files / functions changed, the refactoring in one sentence, the mistake in one sentence and the lines where the versions differ, what is needed for the bug to manifest, the observed demo results (unchanged: exit 0; twin: exit 0; buggy: exit 1), that equiv.py prints the same on the unchanged tree and with the twin, and the pytest summary line with each of the two versions applied (both must be `13 failed, 284 passed, 5 errors` with the same failing tests as the unchanged tree). If you noticed anything on the UNCHANGED tree that already violates the property, say so in a separate short list.""")
