#!/venv/bin/python
"""Evaluate one behaviour-preserving refactoring (directory with patch.diff + equiv.py): it must NOT raise any alarm.
 1. patch applies on /repo HEAD (scratch worktree); equiv.py prints the same output with and without it;
 2. /verif/check --all on the patched tree: list VIOLATION lines beyond the known findings (false alarms) and
    ANALYSIS-ERROR lines (fail-closed, not alarms but undesirable).
Usage: tools/eval_refactor.py <dir> [--no-equiv]"""
import json, os, shutil, subprocess, sys, tempfile
VERIF = os.path.dirname(os.path.dirname(os.path.abspath(__file__)))

def sh(cmd, cwd=None, env=None, timeout=1800):
    p = subprocess.run(cmd, shell=True, cwd=cwd, env=env, capture_output=True, text=True, timeout=timeout)
    return p.returncode, p.stdout + p.stderr

def main():
    d = os.path.abspath(sys.argv[1])
    tmp = tempfile.mkdtemp(prefix="rf-eval-")
    res = {"refactoring": d}
    try:
        base, pat = os.path.join(tmp, "base"), os.path.join(tmp, "patched")
        sh(f"git -C /repo worktree add -q --detach {base} HEAD; git -C /repo worktree add -q --detach {pat} HEAD")
        rc, out = sh(f"git apply {d}/patch.diff", cwd=pat)
        res["applies"] = rc == 0
        if rc != 0:
            res["apply_error"] = out[-300:]
            print(json.dumps(res, indent=1)); return 1
        if "--no-equiv" not in sys.argv and os.path.exists(os.path.join(d, "equiv.py")):
            outs = []
            for tree in (base, pat):
                shutil.copy(os.path.join(d, "equiv.py"), os.path.join(tree, "equiv_rf.py"))
                rc, out = sh("/venv/bin/python equiv_rf.py 2>/dev/null", cwd=tree, env=dict(os.environ, PYTHONPATH=tree), timeout=900)
                outs.append((rc, out))
                os.remove(os.path.join(tree, "equiv_rf.py"))
            res["equiv_same_output"] = outs[0] == outs[1]
            res["equiv_exit"] = [o[0] for o in outs]
        e = dict(os.environ, EFA_REPO=pat, EFA_EVIDENCE_DIR=os.path.join(tmp, "ev"))
        rc, out = sh(f"/venv/bin/python {VERIF}/check --all", env=e, timeout=900)
        res["false_alarms"] = [l.strip()[:300] for l in out.splitlines() if l.startswith("  R-")]
        res["violation_lines"] = sum(1 for l in out.splitlines() if l.startswith("VIOLATION"))
        res["analysis_errors"] = sorted({l[:260] for l in out.splitlines() if l.startswith("ANALYSIS-ERROR")})
        print(json.dumps(res, indent=1))
        return 0
    finally:
        sh(f"git -C /repo worktree remove --force {tmp}/base; git -C /repo worktree remove --force {tmp}/patched; git -C /repo worktree prune")
        shutil.rmtree(tmp, ignore_errors=True)

if __name__ == "__main__":
    sys.exit(main())
