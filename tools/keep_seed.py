#!/venv/bin/python
"""Confirm a seeded change with eval_seed.py and file it under /verif/seeded/<id>/ (patch.diff, demo.py, notes.md, meta.json).
Usage: tools/keep_seed.py <source dir> <id> <property> [--reeval]   (id e.g. C03-1)"""
import json, os, shutil, subprocess, sys
VERIF = os.path.dirname(os.path.dirname(os.path.abspath(__file__)))
src, sid, prop = sys.argv[1], sys.argv[2], sys.argv[3]
dst = os.path.join(VERIF, "seeded", sid)
os.makedirs(dst, exist_ok=True)
for f in ("patch.diff", "demo.py", "notes.md"):
    if os.path.abspath(src) != os.path.abspath(dst) and os.path.exists(os.path.join(src, f)):
        shutil.copy(os.path.join(src, f), os.path.join(dst, f))
p = subprocess.run([os.path.join(VERIF, "tools", "eval_seed.py"), dst], capture_output=True, text=True)
try:
    res = json.loads(p.stdout[p.stdout.index("{"):])
except Exception:
    print(p.stdout[-2000:], p.stderr[-2000:]); sys.exit(1)
notes = open(os.path.join(dst, "notes.md")).read() if os.path.exists(os.path.join(dst, "notes.md")) else ""
confirmed = res.get("applies") and res.get("demo_base_exit") == 0 and res.get("demo_patched_exit") not in (0, None) \
    and res.get("suite_same") is True
import re
expected_rules = sorted({m.group(1) for d in (res.get("details") or []) for m in [re.match(r"(R-[A-Z0-9-]+) ", d)] if m})
meta = {
    "id": sid, "breaks_property": prop, "expected_rules": expected_rules,
    "origin": "written by an independent sub-agent given only the property text and a scratch worktree",
    "needs_to_manifest": notes.strip()[:1500],
    "confirmed": bool(confirmed),
    "what_was_run": {
        "patch applies on /repo HEAD (git apply in a scratch worktree)": res.get("applies"),
        "demo.py on the unchanged tree (exit code)": res.get("demo_base_exit"),
        "demo.py with the patch (exit code)": res.get("demo_patched_exit"),
        "demo output with the patch (tail)": res.get("demo_patched_tail"),
        "pinned suite with the patch: same PASSED/FAILED/ERROR sets as the baseline": res.get("suite_same"),
        "tests passed with the patch": res.get("suite_passed"),
        "checks run": "EFA_REPO=<patched scratch worktree> /verif/check --all",
    },
    "detected_by": {"violations_by_property": res.get("violations_by_property"),
                    "reports": sorted(set(res.get("details") or []))[:6],
                    "analysis_errors": res.get("analysis_errors")},
}
json.dump(meta, open(os.path.join(dst, "meta.json"), "w"), indent=1)
print(sid, "confirmed" if confirmed else "NOT CONFIRMED", "| detected:", res.get("violations_by_property"), "| errors:", len(res.get("analysis_errors") or []))
