import sys
area, files = sys.argv[1], sys.argv[2]
print(f"""You are helping to evaluate a verification tool for the open-source Python project Boavizta/e-footprint (a toolkit that models the carbon footprint of digital services on top of an "explainable quantity" dependency graph with incremental recomputation and what-if simulations).

Your job this time is the OPPOSITE of bug seeding: produce BEHAVIOUR-PRESERVING refactorings of the project — the kind of clean-up, restyling or small restructuring a maintainer does all the time — so that we can check that the verification tool does NOT raise false alarms on correct code.

WORKSPACE
- Work ONLY inside the git worktree /tmp/rf4-{area} (a checkout of the project; the package is in /tmp/rf4-{area}/efootprint, tests in /tmp/rf4-{area}/tests). Do not read or touch /verif or /repo.
- Python: /venv/bin/python (3.12). Run scripts with `cd /tmp/rf4-{area} && PYTHONPATH=/tmp/rf4-{area} /venv/bin/python <script>`.
- Test suite: `cd /tmp/rf4-{area} && /venv/bin/python -m pytest -q -p no:cacheprovider --timeout=900 --continue-on-collection-errors 2>&1 | tail -30`. On the unchanged tree it gives exactly `284 passed, 13 failed, 5 errors` (the failures/errors are environmental and expected). With each refactoring the same tests must pass and the same ones fail/error. ~15 s per run.
- No network. Do not install anything. NEVER use `git stash` (it is shared between worktrees): use `git diff > file; git checkout -- .` and `git apply file`.

YOUR AREA: {files}

WHAT TO PRODUCE
Produce 6 DIFFERENT behaviour-preserving refactorings in your area, each one self-contained (apply to the unchanged tree independently), each touching 2–5 functions (10–80 changed lines). For refactoring number N = 1..6 create /tmp/refactor4-{area}/N/ containing:
  - patch.diff : `git -C /tmp/rf4-{area} diff` for that refactoring alone (only files under efootprint/ change).
  - equiv.py : a standalone script that builds one or two small but non-trivial models through the public API (several usage patterns sharing objects, on-premise and autoscaling servers, a storage with writing and deleting jobs, at least one builder class where your area touches builders, a few live edits, one what-if simulation if your area touches the update machinery, a JSON save/load round trip if your area touches JSON) and prints a deterministic digest of the results (every calculated attribute of every object rounded to 6 significant digits, plus explain() strings or ancestor/child id lists where relevant). It must print EXACTLY the same output on the unchanged tree and with your patch (run both and diff the outputs). Build models so that object ids do not leak into the digest (use names, not ids).
  - notes.md : one paragraph saying what was refactored and why behaviour is unchanged.
After saving each one, restore the worktree with `git -C /tmp/rf4-{area} checkout -- .`.

MAKE THEM STRUCTURAL. Earlier waves already did the small things (renames, splitting expressions, guard clauses, extracting one private helper, loop <-> comprehension, literals to constants, keyword <-> positional). This wave wants the larger, riskier-looking refactorings a confident maintainer does — still strictly behaviour-preserving. Each of your 6 must use a DIFFERENT one of these (or something comparable):
  - merge near-duplicate code of two methods / two sibling classes into ONE shared PUBLIC helper or mixin method, parameterised by attribute name (getattr / setattr with computed names), by a small table, or by a predicate / key function passed as argument;
  - replace an if / elif chain by a dispatch dict or table of (predicate, handler) pairs — or the reverse: replace a dispatch dict by an if / elif chain; replace string-built method names by an explicit table;
  - rewrite accumulation loops with functools.reduce, itertools (accumulate, chain, groupby on SORTED input, zip over lists that provably have the same length), map / filter, sum(generator, start=...), dict / set comprehensions; or the reverse (unroll a comprehension / reduce into explicit loops with early continue);
  - introduce a context manager or a decorator for a repeated "set a flag, do something, restore the flag" or try / except pattern (same semantics on the normal path AND on the exception path as before);
  - turn a property into a method or a method into a property (updating all call sites), move a method up or down the class hierarchy, split a class's long method into 3 public steps called in sequence, or inline a small public method into its only two callers;
  - change the representation of intermediate data (two parallel lists -> one list of pairs or a small dataclass / namedtuple; a dict keyed by object -> list of (object, value) pairs; tuple -> small class) while keeping what the rest of the code observes;
  - reorder independent blocks of a long function and hoist invariant computations out of loops (only when really invariant), or compute once and reuse a value that was computed several times (only when the recomputation is side-effect free and the value cannot change in between);
  - replace explicit closures by functools.partial or by default-argument binding (k=k), replace lambda by operator.attrgetter / itemgetter, replace `x = x or default` by an explicit `is None` test ONLY where x can never be a falsy legal value.
Watch out for the classic traps (late-binding closures in loops, zip truncation, groupby on unsorted input, mutable defaults, `or` with legal falsy values, generators consumed twice, shallow vs deep copies): your refactoring must NOT fall into them — the point is to produce CORRECT code that merely looks like the kind of change in which such bugs usually hide.
Do NOT change behaviour in any observable way (same values, same labels, same explain() output, same dependency graph, same exceptions). Do not touch tests.

FINISH
Leave the worktree clean. In your final message list, for each refactoring: directory, files/functions changed, the kind of refactoring, the pytest summary line with it applied, and confirmation that equiv.py output is identical with and without it.""")
