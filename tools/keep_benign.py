#!/venv/bin/python
"""File a behaviour-preserving refactoring under /verif/benign/<id>/ after checking it: patch applies, equiv.py prints the
same output on both trees, checks raise no alarm. Usage: tools/keep_benign.py <src dir> <id>"""
import json, os, shutil, subprocess, sys
VERIF = os.path.dirname(os.path.dirname(os.path.abspath(__file__)))
src, bid = sys.argv[1], sys.argv[2]
dst = os.path.join(VERIF, "benign", bid)
os.makedirs(dst, exist_ok=True)
for f in ("patch.diff", "equiv.py", "notes.md"):
    if os.path.exists(os.path.join(src, f)) and os.path.abspath(src) != os.path.abspath(dst):
        shutil.copy(os.path.join(src, f), os.path.join(dst, f))
p = subprocess.run([os.path.join(VERIF, "tools", "eval_refactor.py"), dst], capture_output=True, text=True)
try:
    res = json.loads(p.stdout[p.stdout.index("{"):])
except Exception:
    print(bid, "eval failed", (p.stdout + p.stderr)[-500:]); sys.exit(1)
meta = {"id": bid, "origin": "behaviour-preserving refactoring written by an independent sub-agent (area given, nothing from /verif)",
        "patch_applies": res.get("applies"), "equiv_same_output": res.get("equiv_same_output"), "equiv_exit": res.get("equiv_exit"),
        "false_alarms": res.get("false_alarms"), "analysis_errors": res.get("analysis_errors")}
json.dump(meta, open(os.path.join(dst, "meta.json"), "w"), indent=1)
print(bid, "applies", res.get("applies"), "equiv same", res.get("equiv_same_output"), "| false alarms", len(res.get("false_alarms") or []),
      "| analysis errors", len(res.get("analysis_errors") or []))
for x in (res.get("false_alarms") or [])[:3]: print("    FA", x[:200])
for x in (res.get("analysis_errors") or [])[:3]: print("    AE", x[:200])
