"""Prompt of the seventh round of seeded changes (pairs again, on other functions and with other techniques than round 6).
Usage: tools/seed_agent_prompt7.py Cxx   (needs /tmp/prop-Cxx.txt: the property as JSON text)"""
import glob, json, os, re, sys
pid = sys.argv[1]
prop = open(f"/tmp/prop-{pid}.txt").read()
here = os.path.dirname(os.path.dirname(os.path.abspath(__file__)))
# the functions that round 6 already rewrote for this property: derived from the patches' added `def` lines and hunk headers
done = set()
for v in (1, 2):
    p = os.path.join(here, "seeded", f"{pid}-v{v}", "patch.diff")
    if os.path.exists(p):
        cur = None
        for line in open(p):
            if line.startswith("+++ b/"):
                cur = line[6:].strip()
            m = re.match(r"^@@.*@@\s+(def|class)\s+(\w+)", line)
            if m and cur:
                done.add(f"{cur}: {m.group(2)}")
            m = re.match(r"^[-+]\s+def\s+(\w+)", line)
            if m and cur:
                done.add(f"{cur}: {m.group(1)}")
done_txt = "\n".join("  - " + d for d in sorted(done)) or "  (none)"
base = open(os.path.join(here, "tools", "seed_agent_prompt6.py")).read()
body = base[base.index('print(f"""') + len('print(f"""'):base.rindex('""")')]
body = body.replace("/tmp/w6-", "/tmp/w7-").replace("/tmp/seed6-", "/tmp/seed7-")
old_round = body[body.index("SIXTH ROUND — PAIRS"):body.index("WHAT MAKES A GOOD SEEDED BUG")]
new_round = f"""SEVENTH ROUND — PAIRS AGAIN, ELSEWHERE AND OTHERWISE
Six rounds of seeded bugs exist already (direct edits; bugs hidden in one-function refactorings; bugs spread over several sites; bugs hidden inside larger refactorings and in language features; bugs aimed at one clause; and a sixth round of PAIRS: a substantial refactoring delivered twice, once correct and once with one small mistake). Pairs separate a tool that understands the mistake from a tool that merely no longer recognises rewritten code: the tool must object to the buggy version and must have NOTHING to say about the twin. The sixth round's pairs for this property rewrote (file: function / class):
{done_txt}
This round: choose OTHER functions, classes or files than those — the property also depends on code that nobody has refactored yet (callers and callees of the above, sibling classes, the helpers in efootprint/utils and efootprint/builders, properties that navigate the object graph, constructors, `__setattr__` / `__eq__` / `__copy__`-style special methods, module-level helpers) — and use OTHER techniques than the obvious loop -> comprehension: e.g. introduce a small value class / dataclass / NamedTuple / Enum and thread it through; replace a boolean flag by two methods or two methods by a parameter; move a method up or down the class hierarchy or into a mixin; turn a property into a cached_property with explicit invalidation, or the reverse; replace recursion by an explicit stack / worklist or the reverse; replace try/except by a pre-check or the reverse; split a module-level function into a small class with __call__; use functools.singledispatch, operator / itertools / functools helpers, walrus assignments, dict / set algebra, sorted(..., key=...) + bisect, zip(strict=...), enumerate(start=...), slicing instead of index arithmetic, any()/all()/next() with defaults, str.partition / removeprefix, f-string building of attribute names with getattr / setattr, early binding with functools.partial, __slots__, class-level tables. The refactoring must be something a maintainer could plausibly want (less duplication, speed, clarity) and the correct twin must preserve behaviour EXACTLY (same values, labels, explain() strings, calculation graph, exceptions and messages), which equiv.py has to demonstrate on non-trivial models. Make the mistake small and local inside it, and of a kind a reviewer could miss: the wrong one of two similar names, a default evaluated once, an off-by-one, a filter dropped or added, a test that is true for one more case, an in-place operation on something shared, a swapped pair of arguments, an early return that skips a registration, a key that is not unique, a unit or a time zone taken before conversion, state that survives from one call to the next.

"""
body = body.replace(old_round, new_round)
ns = {"pid": pid, "prop": prop, "done_txt": done_txt}
print(eval('f"""' + body + '"""', ns))
