#!/venv/bin/python
"""CLI for efa/mech.py: tools/mech_refactor.py <mode> <out dir>  — writes <out dir>/efootprint, the package of
$EFA_REPO (default /repo) with one mechanical behaviour-preserving refactoring applied to every module."""
import os, sys
sys.path.insert(0, os.path.dirname(os.path.dirname(os.path.abspath(__file__))))
from efa.mech import transform_package, MODES

if __name__ == "__main__":
    mode, out = sys.argv[1], sys.argv[2]
    assert mode in MODES, MODES
    repo = os.environ.get("EFA_REPO", "/repo")
    n = transform_package(mode, os.path.join(repo, "efootprint"), os.path.join(out, "efootprint"))
    print(f"{mode}: {n} files rewritten under {out}/efootprint")
