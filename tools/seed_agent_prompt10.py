#!/venv/bin/python
"""Prompt of the tenth round of seeded changes (pairs; the functions rewritten in rounds 6, 7 and 8 are listed as done).
Usage: tools/seed_agent_prompt10.py Cxx   (needs /tmp/prop-Cxx.txt: the property as JSON text)"""
import os, re, subprocess, sys
pid = sys.argv[1]
here = os.path.dirname(os.path.dirname(os.path.abspath(__file__)))
txt = subprocess.run(["/venv/bin/python", os.path.join(here, "tools", "seed_agent_prompt9.py"), pid], capture_output=True, text=True).stdout
done = set()
for v in (1, 2):
    p = os.path.join(here, "seeded", f"{pid}-y{v}", "patch.diff")
    if os.path.exists(p):
        cur = None
        for line in open(p):
            if line.startswith("+++ b/"):
                cur = line[6:].strip()
            m = re.match(r"^@@.*@@\s+(def|class)\s+(\w+)", line)
            if m and cur:
                done.add(f"{cur}: {m.group(2)}")
            m = re.match(r"^[-+]\s+def\s+(\w+)", line)
            if m and cur:
                done.add(f"{cur}: {m.group(1)}")
extra = "\n".join("  - " + d for d in sorted(done))
txt = txt.replace("/tmp/w9-", "/tmp/w10-").replace("/tmp/seed9-", "/tmp/seed10-").replace("NINTH ROUND", "TENTH ROUND")
marker = "This round: choose OTHER functions"
if extra and marker in txt:
    txt = txt.replace(marker, "and, rewritten in the ninth round:\n" + extra + "\n" + marker, 1)
print(txt)
